package zcnsc

// Replay of obligation (*MintPayload).verifySignatures/post[verified]#2 (property C18):
// path Verify -> (false, nil): errors.Wrap(nil, ...) is nil, so the forged signature passes.
import (
	"io"
	"testing"

	cstate "0chain.net/chaincore/chain/state"
	"0chain.net/core/encryption"
	"0chain.net/smartcontract/stakepool/spenum"
	"github.com/0chain/common/core/util"
)

type rejectingScheme struct{ pk string }

func (s *rejectingScheme) GenerateKeys() error                   { return nil }
func (s *rejectingScheme) ReadKeys(io.Reader) error              { return nil }
func (s *rejectingScheme) WriteKeys(io.Writer) error             { return nil }
func (s *rejectingScheme) SetPublicKey(pk string) error          { s.pk = pk; return nil }
func (s *rejectingScheme) GetPublicKey() string                  { return s.pk }
func (s *rejectingScheme) Sign(interface{}) (string, error)      { return "", nil }
func (s *rejectingScheme) Verify(string, string) (bool, error)   { return false, nil } // invalid signature, no error

type c18Ctx struct{ cstate.StateContextI }

func (c *c18Ctx) GetTrieNode(_ string, v util.MPTSerializable) error {
	if n, ok := v.(*AuthorizerNode); ok {
		n.PublicKey = "pk-of-authorizer"
		n.ProviderType = spenum.Authorizer
	}
	return nil
}
func (c *c18Ctx) GetSignatureScheme() encryption.SignatureScheme { return &rejectingScheme{} }

func TestVerifReplay_C18_forged_signature_rejected(t *testing.T) {
	mp := &MintPayload{EthereumTxnID: "0xabc", Amount: 100, Nonce: 1, ReceivingClientID: "client"}
	sigs := []*AuthorizerSignature{{ID: "authorizer-1", Signature: "forged"}}
	if err := mp.verifySignatures(sigs, &c18Ctx{}); err == nil {
		t.Fatal("verifySignatures accepted a signature that the signature scheme reported as invalid (ok == false, err == nil)")
	}
}
