package main

import (
	"go/types"
	"sort"
)

// Type-based separation for interior pointers.
//
// A pointer p of static type *T where T is a named struct that occurs by value inside other
// types may point into any object whose dynamic type contains a T by value (or is T). We
// record that as has_T(dyntype(obj)). For every type id U mentioned in the VC the truth value
// of has_T(id_U) is computed from the Go type structure and asserted. This gives, e.g., that a
// *sync.RWMutex never aliases an []int64 backing array or a struct without a mutex field.

func containsByValue(u, t types.Type, depth int) bool {
	if depth > 12 {
		return true // conservative
	}
	if types.Identical(u, t) {
		return true
	}
	switch x := u.Underlying().(type) {
	case *types.Struct:
		for i := 0; i < x.NumFields(); i++ {
			if containsByValue(x.Field(i).Type(), t, depth+1) {
				return true
			}
		}
	case *types.Array:
		return containsByValue(x.Elem(), t, depth+1)
	}
	return false
}

func (vc *VC) hasPred(t types.Type) string {
	r := vc.root()
	name := "has_" + sanitize(types.TypeString(t, nil))
	if r.hasPreds == nil {
		r.hasPreds = map[string]types.Type{}
	}
	if _, ok := r.hasPreds[name]; !ok {
		r.hasPreds[name] = t
		vc.declareRaw(name, "(declare-fun "+name+" (Int) Bool)")
	}
	return name
}

func (vc *VC) recordIDType(id int, t types.Type) {
	r := vc.root()
	if r.idTypes == nil {
		r.idTypes = map[int]types.Type{}
	}
	r.idTypes[id] = t
}

// containmentAxioms: has_T(id_U) for every registered predicate and type id.
func (vc *VC) containmentAxioms() []string {
	var out []string
	var names []string
	for n := range vc.hasPreds {
		names = append(names, n)
	}
	sort.Strings(names)
	var ids []int
	for id := range vc.idTypes {
		ids = append(ids, id)
	}
	sort.Ints(ids)
	for _, n := range names {
		t := vc.hasPreds[n]
		for _, id := range ids {
			u := vc.idTypes[id]
			if containsByValue(u, t, 0) {
				out = append(out, "("+n+" "+num(int64(id))+")")
			} else {
				out = append(out, "(not ("+n+" "+num(int64(id))+"))")
			}
		}
	}
	return out
}

// ---------------------------------------------------------------- interior-pointer alignment
//
// at_T(id, slot): a pointer of static type *T into an object of dynamic type id points at a slot where a
// T begins in that type's flattened layout (array elements lie along the idx dimension and share the
// slots of one element). Without this, two *T pointers into one enclosing object could be "shifted"
// against each other by less than the size of T and overlap. Defined per query from the type ids the VC
// mentions; an id the VC does not know, or a type nested deeper than the walk goes, allows every slot.

func (vc *VC) atPred(t types.Type) string {
	r := vc.root()
	name := "at_" + sanitize(types.TypeString(t, nil))
	if r.atPreds == nil {
		r.atPreds = map[string]types.Type{}
	}
	if _, done := r.atPreds[name]; !done {
		r.atPreds[name] = t
		// closed world: every type of the loaded packages that holds a T by value (and T itself, and the
		// backing arrays of slices / arrays whose elements hold one) gets a type id, so that at_T knows
		// every kind of object a *T may point into; ids it does not know hold no T
		r.P.nestedByValue()
		r.assumed["interior pointers: a *"+types.TypeString(t, nil)+" points at the start of a value of that type inside an object of a package-level named struct type, or a slice/array backing store, of the loaded packages (types declared inside functions and anonymous struct types are not enumerated)"] = true
		for _, u := range r.P.namedStructs {
			if containsByValue(u, t, 0) {
				vc.recordIDType(vc.typeID(u), u)
			}
		}
		var keys []string
		for k := range r.P.elemTypes {
			keys = append(keys, k)
		}
		sort.Strings(keys)
		for _, k := range keys {
			e := r.P.elemTypes[k]
			if containsByValue(e, t, 0) {
				if id, ok := vc.backingType(types.NewSlice(e)); ok {
					_ = id
				}
			}
		}
	}
	return name
}

func offsetsOf(L *Layout, u, t types.Type, base, depth int, out *[]int) {
	if depth > 12 {
		*out = append(*out, -1)
		return
	}
	if types.Identical(u, t) {
		*out = append(*out, base)
		return
	}
	switch x := u.Underlying().(type) {
	case *types.Struct:
		for i := 0; i < x.NumFields(); i++ {
			off, _ := L.FieldOffset(x, i)
			offsetsOf(L, x.Field(i).Type(), t, base+off, depth+1, out)
		}
	case *types.Array:
		offsetsOf(L, x.Elem(), t, base, depth+1, out)
	}
}

// alignmentDefs: one define-fun per at_T predicate (emitted right after the prelude).
func (vc *VC) alignmentDefs() []string {
	var names []string
	for n := range vc.atPreds {
		names = append(names, n)
	}
	sort.Strings(names)
	var ids []int
	for id := range vc.idTypes {
		ids = append(ids, id)
	}
	sort.Ints(ids)
	var out []string
	for _, n := range names {
		t := vc.atPreds[n]
		body := "false"
		for i := len(ids) - 1; i >= 0; i-- {
			id := ids[i]
			var offs []int
			offsetsOf(vc.L, vc.idTypes[id], t, 0, 0, &offs)
			if len(offs) == 0 {
				continue // holds no T: no *T points into it (the default)
			}
			anySlot := false
			var alts []string
			seen := map[int]bool{}
			for _, o := range offs {
				if o < 0 {
					anySlot = true
				}
				if !seen[o] {
					seen[o] = true
					alts = append(alts, "(= s "+num(int64(o))+")")
				}
			}
			if anySlot {
				body = "(ite (= id " + num(int64(id)) + ") true " + body + ")" // nested deeper than the walk goes
				continue
			}
			body = "(ite (= id " + num(int64(id)) + ") " + or(alts...) + " " + body + ")"
		}
		out = append(out, "(define-fun "+n+" ((id Int) (s Int)) Bool "+body+")")
	}
	return out
}

// mapValFacts: well-typedness facts for a value looked up in map object m of heap h.
func (vc *VC) mapValFacts(vals []string, mt *types.Map, kl Leaf, h Heap, m string) []string {
	var out []string
	for i, l := range vc.L.Leaves(mt.Elem()) {
		if i >= len(vals) {
			break
		}
		out = append(out, vc.rangeFact(vals[i], l, h))
		key := "MV_" + sortTag[kl.Sort] + "_" + sortTag[l.Sort]
		name, ok := h.M[key]
		if !ok {
			continue
		}
		b, ok := vc.root().heapBound[name]
		if !ok || b == h.Alloc {
			continue
		}
		var ref string
		switch l.Sort {
		case SPtr:
			ref = "(p_obj " + vals[i] + ")"
		case SSlice:
			ref = "(s_obj " + vals[i] + ")"
		case SIface:
			ref = "(p_obj (i_pl " + vals[i] + "))"
		case SRef:
			ref = vals[i]
		default:
			continue
		}
		out = append(out, implies("(<= "+m+" "+b+")", "(<= "+ref+" "+b+")"))
	}
	return out
}
