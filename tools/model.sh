#!/bin/bash
# usage: model.sh <file.smt2> '<term> <term> ...'  -- evaluates terms in a model (z3)
f=$1; shift
sed -e 's/^(get-model)//' $f > /tmp/q_$$.smt2; echo "(get-value ($*))" >> /tmp/q_$$.smt2; ${SOLVER:-z3} -T:30 /tmp/q_$$.smt2 | head -${LINES_MAX:-40}; rm -f /tmp/q_$$.smt2
