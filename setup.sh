#!/bin/bash
# Offline setup: build govc, regenerate the grocksdb overlay shim, warm the Go build cache.
set -e
export GOPROXY=off GOSUMDB=off GOTOOLCHAIN=local
cd /verif/govc
GOFLAGS=-mod=mod GOWORK=off go build -o /verif/bin/govc .
/verif/bin/govc shim >/dev/null
cd /repo/code/go/0chain.net
GOFLAGS= go build -overlay /verif/work/shim/overlay.json -tags verif ./... 
echo setup ok
