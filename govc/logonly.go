package main

import (
	"go/types"
	"strings"

	"golang.org/x/tools/go/ssa"
)

// Log-only code elimination.
//
// Structured logging (logging.Logger.X(msg, zap.String(..), zap.Any(..), ...)) builds a variadic
// slice, boxes every field value and calls field constructors. None of that can influence the
// modelled state, but every allocation costs zero-initialisation facts in the VC. An instruction
// is skipped when its value can only flow into a logging call. The set S of log-only values is the
// greatest set such that every use of a member is (a) a logging call, (b) another member of S,
// (c) a store whose address is in S (writing into log-only memory). Loads from S memory are not
// members, so memory that is read back is never log-only.
// What is dropped: the evaluation of log arguments' boxing/field construction (so a panic inside a
// zap field constructor is not seen by nopanic obligations) - recorded as an assumption.

func isLoggingCall(cc *ssa.CallCommon) bool {
	n := calleeName(cc)
	if n == "" {
		return false
	}
	if strings.HasPrefix(n, "(*go.uber.org/zap.Logger).") {
		m := strings.TrimPrefix(n, "(*go.uber.org/zap.Logger).")
		switch m {
		case "Panic", "Fatal", "DPanic":
			return false // these end the path / are panic sites: keep them
		}
		return true
	}
	return strings.HasPrefix(n, "(*go.uber.org/zap.SugaredLogger).")
}

func computeLogOnly(fn *ssa.Function) map[ssa.Instruction]bool {
	skip := map[ssa.Instruction]bool{}
	S := map[ssa.Value]bool{}
	nlog := 0
	for _, b := range fn.Blocks {
		for _, in := range b.Instrs {
			v, ok := in.(ssa.Value)
			if !ok {
				continue
			}
			switch x := v.(type) {
			case *ssa.Alloc, *ssa.IndexAddr, *ssa.FieldAddr, *ssa.Slice, *ssa.MakeInterface, *ssa.ChangeType, *ssa.ChangeInterface:
				S[v] = true
			case *ssa.Call:
				if isLoggingCall(x.Common()) {
					S[v] = true
					nlog++
				} else if strings.HasPrefix(calleeName(x.Common()), "go.uber.org/zap.") {
					S[v] = true // field constructors
				}
			}
		}
	}
	if nlog == 0 {
		return skip
	}
	okUse := func(v ssa.Value, r ssa.Instruction) bool {
		switch x := r.(type) {
		case *ssa.DebugRef:
			return true
		case *ssa.Store:
			if av, ok := x.Addr.(ssa.Value); ok && S[av] {
				return true
			}
			return false
		}
		if rv, ok := r.(ssa.Value); ok && S[rv] {
			return true
		}
		return false
	}
	for changed := true; changed; {
		changed = false
		for v := range S {
			if c, isCall := v.(*ssa.Call); isCall && isLoggingCall(c.Common()) {
				continue
			}
			refs := v.Referrers()
			drop := refs == nil
			if !drop {
				// an address derived from a base outside S writes into memory that is not log-only
				switch x := v.(type) {
				case *ssa.IndexAddr:
					drop = !S[x.X]
				case *ssa.FieldAddr:
					drop = !S[x.X]
				case *ssa.Slice:
					drop = !S[x.X]
				}
			}
			if !drop {
				for _, r := range *refs {
					if !okUse(v, r) {
						drop = true
						break
					}
				}
			}
			if drop {
				delete(S, v)
				changed = true
			}
		}
	}
	for _, b := range fn.Blocks {
		for _, in := range b.Instrs {
			if v, ok := in.(ssa.Value); ok && S[v] {
				skip[in] = true
			}
			if st, ok := in.(*ssa.Store); ok {
				if av, ok := st.Addr.(ssa.Value); ok && S[av] {
					skip[in] = true
				}
			}
		}
	}
	return skip
}

// ---------------------------------------------------------------- local cells across opaque calls

// escapesAt reports whether the address of the local cell x (or a pointer derived from it) may
// have been handed to other code by an instruction that can execute before `at`. A cell that has
// not escaped yet cannot be written by a call whose body is unknown.
func escapesAt(x ssa.Value, at ssa.Instruction, depth int) bool {
	if depth > 4 {
		return true
	}
	refs := x.Referrers()
	if refs == nil {
		return true
	}
	for _, r := range *refs {
		switch u := r.(type) {
		case *ssa.DebugRef:
			continue
		case *ssa.Store:
			if u.Val == x && canPrecede(u, at) {
				return true
			}
			continue
		case *ssa.UnOp:
			continue // load
		case *ssa.FieldAddr:
			if escapesAt(u, at, depth+1) {
				return true
			}
			continue
		case *ssa.IndexAddr:
			if escapesAt(u, at, depth+1) {
				return true
			}
			continue
		}
		if canPrecede(r, at) {
			return true
		}
	}
	return false
}

// canPrecede: instruction u may execute before (or is) instruction at.
func canPrecede(u, at ssa.Instruction) bool {
	ub, ab := u.Block(), at.Block()
	if ub == nil || ab == nil {
		return true
	}
	if ub == ab {
		// same block: u precedes at if it comes first; if the block is in a cycle, a later u can
		// also precede at on the next iteration
		for _, in := range ub.Instrs {
			if in == u {
				return true
			}
			if in == at {
				break
			}
		}
		return blockReaches(ub, ub)
	}
	return blockReachesFrom(ub, ab)
}

// blockReachesFrom: is `to` reachable from `from` along CFG edges (from != to)?
func blockReachesFrom(from, to *ssa.BasicBlock) bool {
	seen := map[*ssa.BasicBlock]bool{}
	var dfs func(b *ssa.BasicBlock) bool
	dfs = func(b *ssa.BasicBlock) bool {
		for _, s := range b.Succs {
			if s == to {
				return true
			}
			if !seen[s] {
				seen[s] = true
				if dfs(s) {
					return true
				}
			}
		}
		return false
	}
	return dfs(from)
}

// blockReaches: is b on a cycle?
func blockReaches(b, _ *ssa.BasicBlock) bool { return blockReachesFrom(b, b) }

// havocCall is havocAll for a call instruction whose effect is unknown: local cells of the
// function being translated whose address has not escaped before the call keep their contents.
func (vc *VC) havocCall(h *Heap, why string, at ssa.Instruction, keepGhost ...string) {
	old := h.clone()
	keepGhost = append(keepGhost, vc.localGhosts()...) // accumulators of this contract: no code writes them
	for _, g := range sortedKeys(vc.CS.Ghosts) {
		if vc.CS.Ghosts[g].Acc {
			if _, used := h.M["G_"+g]; used {
				keepGhost = append(keepGhost, g)
				vc.root().assumed["accumulator "+g+" is not changed by calls of unknown code (they do not reach a function that updates it)"] = true
			}
		}
	}
	vc.havocAll(h, why, keepGhost...)
	if at == nil || at.Parent() != vc.fn {
		return
	}
	vc.keepUnsharedCells(h, old, at)
	vc.keepFreshResults(h, old, at)
	for _, b := range vc.fn.Blocks {
		for _, in := range b.Instrs {
			a, ok := in.(*ssa.Alloc)
			if !ok {
				continue
			}
			v, have := vc.vals[a]
			if !have || len(v) != 1 || !strings.HasPrefix(v[0], "(mkptr ") {
				continue
			}
			if !canPrecede(a, at) || vc.sharedBefore(a, at, 0) {
				continue
			}
			obj := ptrAddr(v[0]).Obj
			et := a.Type().Underlying().(*types.Pointer).Elem()
			done := map[Sort]bool{}
			for _, l := range vc.L.Leaves(et) {
				if done[l.Sort] {
					continue
				}
				done[l.Sort] = true
				vc.assume(eq(sel(h.H[l.Sort], obj), sel(old.H[l.Sort], obj)))
			}
		}
	}
}
