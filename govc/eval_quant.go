package main

import (
	"fmt"
	"go/types"
	"strings"
)

// quant translates a bounded or typed quantifier.
//
// Index variables are bound to ABSOLUTE positions: for `forall i in lo..hi :: P(s[i])` the SMT
// variable k ranges over s.off+lo .. s.off+hi and s[i] reads row[k]; the pattern is then the
// plain select on k, which e-matches every ground read of that row however its index was
// computed (measured: relative indices `off+i` inside select time out on shifted slices).
func (ev *Eval) quant(q *EQuant, m skMode) (string, error) {
	ev.vc.root().n++
	name := fmt.Sprintf("q_%s_%d", sanitize(q.Var), ev.vc.root().n)
	sortS := "Int"
	var vt types.Type = types.Typ[types.Int]
	if q.Lo == nil {
		switch q.Type {
		case "string":
			sortS, vt = "Str", types.Typ[types.String]
		case "int", "int64", "":
			vt = types.Typ[types.Int64]
		case "uint64":
			vt = types.Typ[types.Uint64]
		case "bool":
			sortS, vt = "Bool", types.Typ[types.Bool]
		default:
			return "", fmt.Errorf("unsupported quantifier type %q", q.Type)
		}
	}
	saved, had := ev.bound[q.Var]
	defer func() {
		if had {
			ev.bound[q.Var] = saved
		} else {
			delete(ev.bound, q.Var)
		}
	}()
	skolem := (q.All && m == skForall) || (!q.All && m == skExists)
	if skolem && ev.probing == 0 {
		if ev.skolemSet == nil {
			ev.skolemSet = map[string]bool{}
		}
		ev.skolemSet[name] = true
	}
	wOK := false
	var w string
	if !q.All && q.Witness != nil && m == skForall && q.Lo != nil {
		ev.allowLocals++
		w0, err := ev.intExpr(q.Witness)
		ev.allowLocals--
		// the hint may name a local that does not exist on this path (e.g. an early return):
		// then the existential is left to the solver
		if err == nil {
			w, wOK = w0, true
		}
	}
	if wOK {
		// an existential to be proved, with a witness hint
		lo, err := ev.intExpr(q.Lo)
		if err != nil {
			return "", err
		}
		hi, err := ev.intExpr(q.Hi)
		if err != nil {
			return "", err
		}
		ev.bound[q.Var] = EVal{T: vt, Terms: []string{w}, Untyped: true}
		body, err := ev.formula(q.Body, m)
		if err != nil {
			return "", err
		}
		return and("(<= "+lo+" "+w+")", "(< "+w+" "+hi+")", body), nil
	}
	bm := m
	if !skolem {
		// a kept quantifier binds its variable universally/existentially for the solver: nothing
		// under it may be skolemised by a constant any more
		bm = skNone
	}
	// ---- probe: which slice does the variable index?
	absOff := ""
	if q.Lo != nil {
		ev.bound[q.Var] = EVal{T: vt, Terms: []string{name}, Untyped: true}
		sSk, sHy, sPa := ev.skolems, ev.hyps, ev.pats
		sCV, sCR, sCN := ev.chainVars, ev.chainRng, ev.chainNames
		ev.chainVars, ev.chainRng, ev.chainNames = nil, nil, nil
		pn, po := ev.probeName, ev.probeOff
		ev.probeName, ev.probeOff = name, ""
		ev.probing++
		_, perr := ev.formula(q.Body, skNone)
		ev.probing--
		absOff = ev.probeOff
		ev.probeName, ev.probeOff = pn, po
		ev.skolems, ev.hyps, ev.pats = sSk, sHy, sPa
		ev.chainVars, ev.chainRng, ev.chainNames = sCV, sCR, sCN
		if perr != nil {
			return "", perr
		}
		if containsIdent(absOff, name) {
			absOff = ""
		}
	}
	rng := "true"
	if q.Lo != nil {
		// bounds are evaluated outside the binding of this variable
		delete(ev.bound, q.Var)
		if had {
			ev.bound[q.Var] = saved
		}
		lo, err := ev.intExpr(q.Lo)
		if err != nil {
			return "", err
		}
		hi, err := ev.intExpr(q.Hi)
		if err != nil {
			return "", err
		}
		if absOff != "" {
			rng = "(and (<= " + plus(absOff, lo) + " " + name + ") (< " + name + " " + plus(absOff, hi) + "))"
			ev.bound[q.Var] = EVal{T: vt, Terms: []string{"(- " + name + " " + absOff + ")"}, Untyped: true, AbsK: name, AbsOff: absOff}
		} else {
			rng = "(and (<= " + lo + " " + name + ") (< " + name + " " + hi + "))"
			ev.bound[q.Var] = EVal{T: vt, Terms: []string{name}, Untyped: true}
		}
	} else {
		if lo, hi, ok := intRange(vt); ok && sortS == "Int" {
			rng = "(and (<= " + lo + " " + name + ") (<= " + name + " " + hi + "))"
		}
		ev.bound[q.Var] = EVal{T: vt, Terms: []string{name}}
	}
	savedPats := ev.pats
	ev.pats = nil
	innerQ, chain := q.Body.(*EQuant)
	if chain && !skolem && innerQ.All == q.All && ev.probing == 0 {
		ev.chainVars = append(ev.chainVars, "("+name+" "+sortS+")")
		ev.chainRng = append(ev.chainRng, rng)
		ev.chainNames = append(ev.chainNames, name)
		body, err := ev.formula(q.Body, bm)
		ev.pats = savedPats
		return body, err
	}
	body, err := ev.formula(q.Body, bm)
	pats := ev.pats
	ev.pats = savedPats
	if err != nil {
		return "", err
	}
	if skolem {
		ev.skolems = append(ev.skolems, "(declare-const "+name+" "+sortS+")")
		if q.All {
			return implies(rng, body), nil
		}
		return and(rng, body), nil
	}
	vars := []string{"(" + name + " " + sortS + ")"}
	rngs := []string{rng}
	names := []string{name}
	if len(ev.chainVars) > 0 && ev.probing == 0 {
		vars = append(append([]string{}, ev.chainVars...), vars...)
		rngs = append(append([]string{}, ev.chainRng...), rngs...)
		names = append(append([]string{}, ev.chainNames...), names...)
		ev.chainVars, ev.chainRng, ev.chainNames = nil, nil, nil
	}
	// patterns: one term per variable, preferring terms where the variable is a bare index
	var mp []string
	okAll := true
	used := map[string]bool{}
	for _, vn := range names {
		found := ""
		for _, p := range pats {
			if strings.HasSuffix(p, " "+vn+")") {
				found = p
				break
			}
		}
		if found == "" {
			for _, p := range pats {
				if containsIdent(p, vn) {
					found = p
					break
				}
			}
		}
		if found == "" {
			okAll = false
			break
		}
		if !used[found] {
			used[found] = true
			mp = append(mp, found)
		}
	}
	// patterns that do not mention our variables belong to an enclosing quantifier
	for _, p := range pats {
		mine := false
		for _, vn := range names {
			if containsIdent(p, vn) {
				mine = true
			}
		}
		if !mine {
			ev.pats = append(ev.pats, p)
		}
	}
	var inner string
	if q.All {
		inner = implies(and(rngs...), body)
	} else {
		inner = and(append(rngs, body)...)
	}
	if okAll && len(mp) > 0 {
		alts := ""
		if len(names) == 1 && sortS != "Int" {
			// ghost-map keys: every map read at the bound key is an alternative trigger, so a
			// conjunction over several ghost maps instantiates from any of them
			n := 0
			for _, p := range pats {
				if n < 6 && !used[p] && strings.HasSuffix(p, " "+names[0]+")") {
					used[p] = true
					alts += " :pattern (" + p + ")"
					n++
				}
			}
		}
		inner = "(! " + inner + " :pattern (" + strings.Join(mp, " ") + ")" + alts + ")"
	}
	kw := "forall"
	if !q.All {
		kw = "exists"
	}
	return "(" + kw + " (" + strings.Join(vars, " ") + ") " + inner + ")", nil
}
