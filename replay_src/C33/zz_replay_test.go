package miner

// Replay of obligation (*Chain).ThresholdNumBLSSigReceived/at-call@computeRBO[group-signature-recovered]#2
// (property C33): with DKG on, threshold-many collected shares whose group signature cannot be
// recovered (CalBlsGpSign returns an error) must not produce a round random seed.
import (
	"context"
	"testing"

	"0chain.net/chaincore/chain"
	"0chain.net/chaincore/node"
	"0chain.net/chaincore/round"
	"0chain.net/chaincore/threshold/bls"
	"0chain.net/core/encryption"
	"github.com/0chain/common/core/logging"
	"go.uber.org/zap"
)

func init() { logging.Logger = zap.NewNop() }

func TestVerifReplay_C33_unrecoverable_group_signature(t *testing.T) {
	round.SetupEntity(nil)
	c := chain.Provider().(*chain.Chain)
	c.ChainConfig = chain.NewConfigImpl(&chain.ConfigData{IsDkgEnabled: true})
	SetupMinerChain(c)
	mc := GetMinerChain()
	if err := mc.SetDKG(bls.MakeDKG(2, 3, encryption.Hash("self")), 0); err != nil {
		t.Fatal(err)
	}
	mr := mc.CreateRound(round.NewRound(5))
	mr = mc.AddRound(mr).(*Round)
	for _, id := range []string{"n1", "n2"} {
		n := node.Provider()
		n.ID = encryption.Hash(id)
		s := &round.VRFShare{Round: 5, Share: "this-is-not-a-bls-signature"}
		s.SetParty(n)
		if !mr.AddVRFShare(s, 2) {
			t.Fatalf("share of %s not added", id)
		}
	}
	got := mc.ThresholdNumBLSSigReceived(context.Background(), mr, 2)
	if got || mr.IsVRFComplete() {
		t.Fatalf("a round random seed was produced (returned %v, seed %d, VRF complete %v) although the group signature could not be recovered",
			got, mr.GetRandomSeed(), mr.IsVRFComplete())
	}
}
