package main

import (
	"fmt"
	"regexp"
	"strings"
)

// Relational ("two-copy") obligations:   binds <lvalue>, <lvalue>, ...
//
// For a function with one result, `binds t.F` states: two executions that start in states equal
// everywhere except in t.F return different results whenever the two values of t.F differ (the
// result "commits to" t.F). The function body is translated once; the second copy is the same
// context with every declared constant renamed, linked to the first by
//     parameters equal, globals equal, allocation counter equal,
//     every initial heap equal except the heap cell of t.F (a fresh value in copy B).
// Obligation:  result_A == result_B  ==>  t.F_A == t.F_B.
// Uninterpreted functions are shared between the copies (same function, same arguments => same
// result). To conclude that results differ, string building is treated as a free constructor
// (str_concat has projections) and the deterministic encoders named in injectiveFns have inverses:
// these are ASSUMPTIONS (no separator inside a field; hash collision-free) listed in the evidence.

var injectiveFns = []string{
	"det_strconv_FormatInt", "det_strconv_FormatUint", "det_strconv_Itoa",
	"det_0chain_net_core_common_TimeToString", "det_0chain_net_core_encryption_Hash",
}

var symRe = regexp.MustCompile(`[A-Za-z_$][A-Za-z0-9_$]*`)

func (vc *VC) bindsObligations() error {
	ct := vc.ct
	if ct == nil || len(ct.Binds) == 0 {
		return nil
	}
	if len(vc.rets) == 0 {
		return fmt.Errorf("%s: binds: function has no reachable return", vc.key)
	}
	// result of copy A as one term (first leaf of the first result)
	resA := ""
	for i := len(vc.rets) - 1; i >= 0; i-- {
		r := vc.rets[i]
		if len(r.vals) == 0 || len(r.vals[0]) == 0 {
			return fmt.Errorf("%s: binds: function returns nothing", vc.key)
		}
		v := r.vals[0][0]
		if resA == "" {
			resA = v
		} else {
			resA = ite(r.guard, v, resA)
		}
	}
	var retGuards []string
	for _, r := range vc.rets {
		retGuards = append(retGuards, r.guard)
	}
	// names declared as constants: these are renamed in copy B
	consts := map[string]string{} // name -> sort
	var funDecls []string
	for _, d := range vc.decls {
		f := strings.Fields(d)
		if len(f) >= 3 && f[0] == "(declare-const" {
			name := f[1]
			if strings.HasPrefix(name, "strc_") || strings.HasPrefix(name, "f64c_") {
				continue // literals are shared
			}
			sort := strings.TrimSuffix(strings.TrimSpace(strings.SplitN(strings.SplitN(d, name, 2)[1], ";", 2)[0]), ")")
			consts[name] = strings.TrimSpace(sort)
		} else if len(f) >= 2 && f[0] == "(declare-fun" {
			funDecls = append(funDecls, d)
		}
	}
	rename := func(t string) string {
		return symRe.ReplaceAllStringFunc(t, func(s string) string {
			if _, ok := consts[s]; ok {
				return s + "__b"
			}
			return s
		})
	}
	ev := vc.newEval(vc.fn, vc.heap0, vc.heap0, nil)
	for bi, c := range ct.Binds {
		lv, err := ev.expr(c.E)
		if err != nil {
			return fmt.Errorf("%s: binds %s: %v", vc.key, c.Src, err)
		}
		if lv.Addr == nil {
			return fmt.Errorf("%s: binds %s: not a memory location", vc.key, c.Src)
		}
		ls := vc.L.Leaves(lv.T)
		if len(ls) != 1 {
			return fmt.Errorf("%s: binds %s: only single-word fields are supported", vc.key, c.Src)
		}
		srt := ls[0].Sort
		a := *lv.Addr
		valA := sel(sel(sel(vc.heap0.H[srt], a.Obj), a.Slot), a.Idx)
		var sb strings.Builder
		sb.WriteString("; obligation: " + vc.key + "/binds[" + c.Src + "]\n; source: two runs differing only in " + c.Src + " return different results\n")
		sb.WriteString(smtPrelude)
		for _, d := range vc.alignmentDefs() {
			sb.WriteString(d + "\n")
		}
		for _, d := range vc.decls {
			sb.WriteString(d + "\n")
		}
		for n, s := range consts {
			_ = n
			_ = s
		}
		for _, n := range sortedKeys(consts) {
			sb.WriteString("(declare-const " + n + "__b " + consts[n] + ")\n")
		}
		sb.WriteString("(declare-fun sc_l (Str) Str)\n(declare-fun sc_r (Str) Str)\n")
		sb.WriteString("(assert (forall ((a Str) (b Str)) (! (and (= (sc_l (str_concat a b)) a) (= (sc_r (str_concat a b)) b)) :pattern ((str_concat a b)))))\n")
		for _, fd := range funDecls {
			fdName := strings.Fields(fd)[1]
			for _, injP := range injectiveFns {
				if strings.HasPrefix(fdName, injP+"_") {
					inj := fdName
					// (declare-fun NAME (S1 S2 ...) R): injective in its first argument
					open := strings.Index(fd, "(") // first
					_ = open
					sig := fd[len("(declare-fun "+inj+" "):]
					args := sig[1:strings.Index(sig, ")")]
					ret := strings.TrimSuffix(strings.TrimSpace(sig[strings.Index(sig, ")")+1:]), ")")
					as := strings.Fields(args)
					if len(as) == 0 {
						continue
					}
					var vars, names []string
					for i, s := range as {
						names = append(names, fmt.Sprintf("x%d", i))
						vars = append(vars, fmt.Sprintf("(x%d %s)", i, s))
					}
					app := "(" + inj + " " + strings.Join(names, " ") + ")"
					sb.WriteString(fmt.Sprintf("(declare-fun inv_%s (%s) %s)\n", inj, strings.TrimSpace(ret), as[0]))
					sb.WriteString(fmt.Sprintf("(assert (forall (%s) (! (= (inv_%s %s) x0) :pattern (%s))))\n", strings.Join(vars, " "), inj, app, app))
				}
			}
		}
		for _, ax := range append(vc.literalAxioms(), vc.containmentAxioms()...) {
			sb.WriteString("(assert " + ax + ")\n")
		}
		for _, as := range vc.asserts {
			sb.WriteString("(assert " + as + ")\n")
			rb := rename(as)
			if rb != as {
				sb.WriteString("(assert " + rb + ")\n")
			}
		}
		// link the two initial states
		for _, n := range sortedKeys(consts) {
			switch {
			case strings.HasPrefix(n, "p_") || strings.HasPrefix(n, "fv_") || strings.HasPrefix(n, "glob_") || n == vc.heap0.Alloc:
				sb.WriteString("(assert (= " + n + " " + n + "__b))\n")
			}
		}
		for s := Sort(0); s < nSorts; s++ {
			h0 := vc.heap0.H[s]
			if s == srt {
				fresh := "relfresh__b"
				sb.WriteString("(declare-const " + fresh + " " + innerSort[s] + ")\n")
				sb.WriteString("(assert (= " + h0 + "__b " + sto(h0, a.Obj, sto(sel(h0, a.Obj), a.Slot, sto(sel(sel(h0, a.Obj), a.Slot), a.Idx, fresh))) + "))\n")
			} else {
				sb.WriteString("(assert (= " + h0 + "__b " + h0 + "))\n")
			}
		}
		for _, k := range sortedKeys(vc.heap0.M) {
			sb.WriteString("(assert (= " + vc.heap0.M[k] + "__b " + vc.heap0.M[k] + "))\n")
		}
		valB := rename(valA)
		same := eq(resA, rename(resA))
		what := "the result commits to " + c.Src + ": runs differing only in it return different results"
		oname := fmt.Sprintf("%s/binds[%s]#%d", vc.key, c.Src, bi+1)
		if c.Label == "accept" {
			// both runs accept (nil error result)
			same = and(eq(resA, "niliface"), eq(rename(resA), "niliface"))
			what = "acceptance commits to " + c.Src + ": of two runs differing only in it at most one returns nil"
			oname = fmt.Sprintf("%s/binds-accept[%s]#%d", vc.key, c.Src, bi+1)
		}
		goal := implies(and(or(retGuards...), rename(or(retGuards...)), same), eq(valA, valB))
		sb.WriteString("(assert (not " + goal + "))\n(check-sat)\n(get-model)\n")
		vc.addObl(&Obligation{Name: oname, Kind: "binds", Goal: goal, Src: what, Raw: sb.String()})
	}
	vc.root().assumed["relational obligations: string concatenation is a free constructor (no separator inside a field); "+strings.Join(injectiveFns, ", ")+" are injective (hash collision-free)"] = true
	return nil
}
