package main

import (
	"fmt"
	"go/types"
	"sort"
	"strings"

	"golang.org/x/tools/go/ssa"
	"golang.org/x/tools/go/ssa/ssautil"
)

// ---------------------------------------------------------------- writer closure
//
//   //@ writers <PROP> <Type.Field>, <Type.Field>, ... : <func>, <func>, ...
//
// declares, for the package the contract file belongs to, the complete list of functions that may
// store to the named struct fields of objects that already exist (stores into an object the same
// function has just allocated - composite literals, constructors - do not count). The scan runs over
// the SSA of every function of the packages loaded for the property (methods and function literals
// included) and is an obligation of its own, `writers/<Type.Field,...>`: a store to one of the fields
// in a function that is not listed fails it. This is what turns "every listed writer keeps the
// invariant" into "everything keeps it", and what discharges frame assumptions on dynamically
// dispatched callees (they are not writers). Not seen: reflection, unsafe, encoding/json decoding into
// an existing object, packages that are not loaded for the property (listed in the obligation text).

type WriterDecl struct {
	Pkg     string
	Prop    string
	Fields  []string // "Type.Field"
	Allowed []string // function names relative to the package ("(*T).M", "F", with "$n" for literals)
	File    string
	Line    int
}

func parseWriters(rest, pkg, file string, line int) (*WriterDecl, error) {
	// <PROP> <fields> : <funcs>
	f := strings.Fields(rest)
	if len(f) < 4 || !strings.Contains(rest, ":") {
		return nil, fmt.Errorf("writers <PROP> <Type.Field>, ... : <func>, ...")
	}
	w := &WriterDecl{Pkg: pkg, Prop: f[0], File: file, Line: line}
	body := strings.TrimSpace(strings.TrimPrefix(rest, f[0]))
	i := strings.Index(body, " : ")
	if i < 0 {
		return nil, fmt.Errorf("writers <PROP> <Type.Field>, ... : <func>, ...")
	}
	for _, x := range strings.Split(body[:i], ",") {
		if x = strings.TrimSpace(x); x != "" {
			w.Fields = append(w.Fields, x)
		}
	}
	for _, x := range splitTop(body[i+3:], ',') {
		if x = strings.TrimSpace(x); x != "" {
			w.Allowed = append(w.Allowed, x)
		}
	}
	return w, nil
}

// freshBase: the address is (a field of) an object allocated in this very function.
func freshBase(v ssa.Value) bool {
	for d := 0; d < 8; d++ {
		switch x := v.(type) {
		case *ssa.Alloc:
			return true
		case *ssa.FieldAddr:
			v = x.X
		case *ssa.IndexAddr:
			v = x.X
		default:
			return false
		}
	}
	return false
}

func namedStruct(t types.Type) (*types.Named, *types.Struct) {
	if p, ok := t.Underlying().(*types.Pointer); ok {
		t = p.Elem()
	}
	n, ok := t.(*types.Named)
	if !ok {
		return nil, nil
	}
	st, ok := n.Underlying().(*types.Struct)
	if !ok {
		return nil, nil
	}
	return n, st
}

func checkWriters(P *Program, w *WriterDecl) *FuncReport {
	name := "writers/" + strings.Join(w.Fields, ",")
	fr := &FuncReport{Key: w.Pkg + "." + name, Mode: "scan"}
	want := map[string]bool{}
	for _, f := range w.Fields {
		want[f] = true
	}
	allowed := map[string]bool{}
	for _, a := range w.Allowed {
		allowed[a] = true
	}
	found := map[string][]string{} // writer (relative name) -> fields
	var scanned []string
	seenPkg := map[string]bool{}
	for fn := range ssautil.AllFunctions(P.Prog) {
		top := fn
		for top.Parent() != nil {
			top = top.Parent()
		}
		if top.Pkg == nil || P.ssaBy[top.Pkg.Pkg.Path()] == nil || len(fn.Blocks) == 0 {
			continue
		}
		if strings.HasSuffix(fn.Name(), "$bound") || strings.HasSuffix(fn.Name(), "$thunk") || fn.Synthetic != "" {
			continue
		}
		pk := top.Pkg.Pkg.Path()
		if !seenPkg[pk] {
			seenPkg[pk] = true
			scanned = append(scanned, pk)
		}
		rel := strings.TrimPrefix(funcKey(fn), pk+".")
		if pk != w.Pkg {
			rel = funcKey(fn)
		}
		note := func(field string) {
			found[rel] = append(found[rel], field)
		}
		for _, b := range fn.Blocks {
			for _, in := range b.Instrs {
				// decoding into an existing object: a value of a watched type handed to a trie read /
				// decoder (GetTrieNode, Decode, UnmarshalMsg, Unmarshal, UnmarshalJSON)
				if ci, isCall := in.(ssa.CallInstruction); isCall {
					cc := ci.Common()
					cn := ""
					if cc.IsInvoke() {
						cn = cc.Method.Name()
					} else if f := cc.StaticCallee(); f != nil {
						cn = f.Name()
					}
					switch cn {
					case "GetTrieNode", "Decode", "UnmarshalMsg", "Unmarshal", "UnmarshalJSON", "DecodeMsg":
						args := cc.Args
						if cc.IsInvoke() {
							args = append([]ssa.Value{}, cc.Args...)
						}
						for _, a := range args {
							if mi, isMI := a.(*ssa.MakeInterface); isMI {
								a = mi.X
							}
							if _, isPtr := a.Type().Underlying().(*types.Pointer); !isPtr || freshBase(a) {
								continue
							}
							if fn.Signature.Recv() != nil && len(fn.Params) > 0 && a == ssa.Value(fn.Params[0]) && (fn.Name() == "Decode" || fn.Name() == "UnmarshalJSON" || fn.Name() == "MarshalMsg") {
								continue // a decoder delegating to another decoder on its own receiver
							}
							if n, s := namedStruct(a.Type()); n != nil && n.Obj().Pkg() != nil && n.Obj().Pkg().Path() == w.Pkg {
								for i := 0; i < s.NumFields(); i++ {
									key := n.Obj().Name() + "." + s.Field(i).Name()
									if want[key] {
										note(key + " (decoded into by " + cn + ")")
									}
								}
							}
						}
					}
					continue
				}
				st, ok := in.(*ssa.Store)
				if !ok || freshBase(st.Addr) {
					continue
				}
				// field store
				if fa, ok := st.Addr.(*ssa.FieldAddr); ok {
					if n, s := namedStruct(fa.X.Type()); n != nil && n.Obj().Pkg() != nil && n.Obj().Pkg().Path() == w.Pkg {
						key := n.Obj().Name() + "." + s.Field(fa.Field).Name()
						if want[key] {
							note(key)
						}
					}
					continue
				}
				// whole-struct store  *p = T{...}
				if n, s := namedStruct(st.Addr.Type()); n != nil && n.Obj().Pkg() != nil && n.Obj().Pkg().Path() == w.Pkg {
					if _, isStruct := st.Val.Type().Underlying().(*types.Struct); isStruct {
						for i := 0; i < s.NumFields(); i++ {
							key := n.Obj().Name() + "." + s.Field(i).Name()
							if want[key] {
								note(key + " (whole-struct store)")
							}
						}
					}
				}
			}
		}
	}
	sort.Strings(scanned)
	var bad []string
	for _, fnName := range sortedKeys(found) {
		if !allowed[fnName] {
			bad = append(bad, fnName+" writes "+strings.Join(found[fnName], ", "))
		}
	}
	var unused []string
	for _, a := range w.Allowed {
		if _, ok := found[a]; !ok {
			unused = append(unused, a)
		}
	}
	src := fmt.Sprintf("only %s store to %s of existing objects (SSA of every function of %s scanned; reflection / unsafe / decoding not seen)",
		strings.Join(w.Allowed, ", "), strings.Join(w.Fields, ", "), strings.Join(scanned, ", "))
	rep := &OblReport{Name: w.Pkg + "." + name, Canon: w.Pkg + "." + name, Kind: "writers", Func: fr.Key, Verdict: "discharged", Solver: "ssa-scan", Src: src}
	if len(bad) > 0 {
		rep.Verdict = "refuted"
		rep.Src = "unlisted writer(s): " + strings.Join(bad, "; ") + "  -- " + src
		rep.Output = rep.Src
	}
	if len(unused) > 0 {
		fr.Notes = append(fr.Notes, "writers "+strings.Join(w.Fields, ",")+": listed but not writing (harmless): "+strings.Join(unused, ", "))
	}
	fr.Obls = append(fr.Obls, rep)
	return fr
}
