package minersc

// Replay test C38: the DKG "share or signs" transaction (Publish phase of the
// view change) is accepted from a sender that does not take part in the DKG.
//
// Everything that matters is real: real BLS0Chain node keys, real DKG
// polynomials (bls.MakeDKG), real MPKs contributed through the real
// contributeMpk, real signatures of the receiving miners, the real
// block.ShareOrSigns.Validate and the real shareSignsOrShares / moveToWait.
// Only the state context is an in-memory stub (map of msgp-encoded values).

import (
	"encoding/hex"
	"encoding/json"
	"sort"
	"testing"

	"0chain.net/chaincore/block"
	cstate "0chain.net/chaincore/chain/state"
	"0chain.net/chaincore/node"
	"0chain.net/chaincore/threshold/bls"
	"0chain.net/chaincore/transaction"
	"0chain.net/core/datastore"
	"0chain.net/core/encryption"
	"github.com/0chain/common/core/logging"
	"github.com/0chain/common/core/util"
	"go.uber.org/zap"
)

// ---------------------------------------------------------------------------
// in-memory state context
// ---------------------------------------------------------------------------

type c38Trie struct {
	util.MerklePatriciaTrieI // nil: only GetVersion is used (in debug logs)
}

func (c38Trie) GetVersion() util.Sequence { return 1 }

type c38State struct {
	cstate.StateContextI // nil: any method not overridden below panics
	store                map[datastore.Key][]byte
	blk                  *block.Block
}

func newC38State(round int64) *c38State {
	b := &block.Block{}
	b.Round = round
	return &c38State{store: make(map[datastore.Key][]byte), blk: b}
}

func (s *c38State) GetTrieNode(key datastore.Key, v util.MPTSerializable) error {
	raw, ok := s.store[key]
	if !ok {
		return util.ErrValueNotPresent
	}
	_, err := v.UnmarshalMsg(raw)
	return err
}

func (s *c38State) InsertTrieNode(key datastore.Key, v util.MPTSerializable) (datastore.Key, error) {
	raw, err := v.MarshalMsg(nil)
	if err != nil {
		return "", err
	}
	s.store[key] = raw
	return key, nil
}

func (s *c38State) GetBlock() *block.Block { return s.blk }

func (s *c38State) GetState() util.MerklePatriciaTrieI { return c38Trie{} }

// a fresh verification-only scheme per call, like chain.GetSignatureScheme
func (s *c38State) GetSignatureScheme() encryption.SignatureScheme {
	return encryption.NewBLS0ChainScheme()
}

// only reached when gn.PrevMagicBlock is nil; it is always set in this test
func (s *c38State) GetLastestFinalizedMagicBlock() *block.Block { return nil }

// ---------------------------------------------------------------------------
// test actors
// ---------------------------------------------------------------------------

type c38Node struct {
	name   string
	scheme *encryption.BLS0ChainScheme // node key pair
	id     string                      // hash of the public key (client id)
	dkg    *bls.DKG                    // nil for the outsider
}

func newC38Node(t *testing.T, name string) *c38Node {
	t.Helper()
	sch := encryption.NewBLS0ChainScheme()
	if err := sch.GenerateKeys(); err != nil {
		t.Fatalf("generate keys for %s: %v", name, err)
	}
	pkb, err := hex.DecodeString(sch.GetPublicKey())
	if err != nil {
		t.Fatalf("public key of %s: %v", name, err)
	}
	return &c38Node{name: name, scheme: sch, id: encryption.Hash(pkb)}
}

func c38Txn(clientID string) *transaction.Transaction {
	txn := &transaction.Transaction{}
	txn.ClientID = clientID
	txn.ToClientID = ADDRESS
	return txn
}

func c38SetPhase(t *testing.T, st *c38State, ph Phase) {
	t.Helper()
	pn := &PhaseNode{Phase: ph, StartRound: st.blk.Round, CurrentRound: st.blk.Round}
	if _, err := st.InsertTrieNode(pn.GetKey(), pn); err != nil {
		t.Fatalf("insert phase node: %v", err)
	}
}

// c38BuildSOS builds exactly what miner `from` publishes: for every miner in
// `signers` the signature that miner gave for the share it received
// (message = Hash(share), signed by the receiver's node key, see
// miner.SignShareRequestHandler), for every miner in `revealed` the plain share.
func c38BuildSOS(t *testing.T, from *c38Node, signers, revealed []*c38Node) *block.ShareOrSigns {
	t.Helper()
	sos := block.NewShareOrSigns()
	sos.ID = from.id // miner/protocol_view_change.go: shareOrSigns.ID = self key
	for _, to := range signers {
		share, err := from.dkg.ComputeDKGKeyShare(bls.ComputeIDdkg(to.id))
		if err != nil {
			t.Fatalf("compute share %s->%s: %v", from.name, to.name, err)
		}
		msg := encryption.Hash(share.GetHexString())
		sig, err := to.scheme.Sign(msg)
		if err != nil {
			t.Fatalf("sign share %s->%s: %v", from.name, to.name, err)
		}
		ks := &bls.DKGKeyShare{Message: msg, Sign: sig}
		ks.SetKey(to.id)
		sos.ShareOrSigns[to.id] = ks
	}
	for _, to := range revealed {
		pid := bls.ComputeIDdkg(to.id)
		if _, err := from.dkg.ComputeDKGKeyShare(pid); err != nil {
			t.Fatalf("compute share %s->%s: %v", from.name, to.name, err)
		}
		ks := from.dkg.GetDKGKeyShare(pid)
		if ks == nil {
			t.Fatalf("no share %s->%s", from.name, to.name)
		}
		sos.ShareOrSigns[to.id] = ks
	}
	return sos
}

func c38StoredGSOS(t *testing.T, st *c38State) *block.GroupSharesOrSigns {
	t.Helper()
	gsos, err := getGroupShareOrSigns(st)
	if err == util.ErrValueNotPresent {
		return block.NewGroupSharesOrSigns()
	}
	if err != nil {
		t.Fatalf("get stored group shares or signs: %v", err)
	}
	return gsos
}

// ---------------------------------------------------------------------------
// the test
// ---------------------------------------------------------------------------

func TestVerifReplay_C38_share_from_non_participant(t *testing.T) {
	// minersc has no logger of its own: it dot-imports this one as `Logger`
	logging.Logger = zap.NewNop()

	const (
		dkgT = 2
		dkgK = 3
		dkgN = 4
	)

	var (
		st  = newC38State(100)
		msc = &MinerSmartContract{}

		a        = newC38Node(t, "A")
		b        = newC38Node(t, "B")
		c        = newC38Node(t, "C")
		d        = newC38Node(t, "D")
		outsider = newC38Node(t, "X") // valid client key, NOT a DKG miner
		miners   = []*c38Node{a, b, c, d}
	)

	// previous magic block: A was a miner of the previous set
	pmb := block.NewMagicBlock()
	pmb.Miners = node.NewPool(node.NodeTypeMiner)
	pmb.Miners.NodesMap[a.id] = &node.Node{}
	pmb.Sharders = node.NewPool(node.NodeTypeSharder)
	gn := &GlobalNode{PrevMagicBlock: pmb}

	// DKG miners list: A, B, C, D
	dmn := NewDKGMinerNodes()
	dmn.T, dmn.K, dmn.N = dkgT, dkgK, dkgN
	for _, m := range miners {
		sn := &SimpleNode{PublicKey: m.scheme.GetPublicKey(), ShortName: m.name}
		sn.ID = m.id
		dmn.SimpleNodes[m.id] = sn
		m.dkg = bls.MakeDKG(dkgT, dkgN, m.id)
	}
	if err := updateDKGMinersList(st, dmn); err != nil {
		t.Fatalf("store dkg miners: %v", err)
	}
	if _, ok := dmn.SimpleNodes[outsider.id]; ok {
		t.Fatalf("setup: outsider must not be in the DKG miners list")
	}

	// ---- Contribute phase: real contributeMpk --------------------------------
	c38SetPhase(t, st, Contribute)

	// reference behaviour: the outsider is refused in the Contribute phase
	{
		mpk := &block.MPK{ID: outsider.id, Mpk: []string{"00", "00"}}
		_, err := msc.contributeMpk(c38Txn(outsider.id), mpk.Encode(), gn, st)
		if err == nil {
			t.Fatalf("setup: contributeMpk accepted an outsider")
		}
		t.Logf("contributeMpk(outsider) rejected as expected: %v", err)
	}
	for _, m := range miners {
		mpk := &block.MPK{ID: m.id}
		for _, pk := range m.dkg.GetMPKs() {
			mpk.Mpk = append(mpk.Mpk, pk.GetHexString())
		}
		if _, err := msc.contributeMpk(c38Txn(m.id), mpk.Encode(), gn, st); err != nil {
			t.Fatalf("contributeMpk(%s): %v", m.name, err)
		}
	}
	if mpks, err := getMinersMPKs(st); err != nil || len(mpks.Mpks) != len(miners) {
		t.Fatalf("setup: stored mpks: %v, err %v", mpks, err)
	}

	// ---- Publish phase -------------------------------------------------------
	c38SetPhase(t, st, Publish)

	// what A publishes: signatures of B and C, revealed share for silent D
	sosA := c38BuildSOS(t, a, []*c38Node{b, c}, []*c38Node{d})
	inputA := sosA.Encode()
	// what B publishes: signatures of A and C, revealed share for silent D
	sosB := c38BuildSOS(t, b, []*c38Node{a, c}, []*c38Node{d})
	inputB := sosB.Encode()

	// sanity: the content is valid on its own
	{
		mpks, err := getMinersMPKs(st)
		if err != nil {
			t.Fatalf("get mpks: %v", err)
		}
		pks := make(map[string]string)
		for id, sn := range dmn.SimpleNodes {
			pks[id] = sn.PublicKey
		}
		chk := block.NewShareOrSigns()
		if err := chk.Decode(inputA); err != nil {
			t.Fatalf("decode A's message: %v", err)
		}
		revealed, ok := chk.Validate(mpks, pks, st.GetSignatureScheme())
		if !ok || len(revealed) != 1 || revealed[0] != d.id {
			t.Fatalf("setup: A's message does not validate: ok=%v revealed=%v", ok, revealed)
		}
	}

	// negative control: content that does NOT validate is refused (so that a
	// rejection of the outsider below can not be confused with broken content)
	{
		bad := block.NewShareOrSigns()
		if err := bad.Decode(inputA); err != nil {
			t.Fatalf("decode: %v", err)
		}
		bad.ShareOrSigns[b.id].Sign = bad.ShareOrSigns[c.id].Sign // C's signature under B's key
		if _, err := msc.shareSignsOrShares(c38Txn(a.id), bad.Encode(), gn, st); err == nil {
			t.Fatalf("control: tampered share-or-signs content was accepted")
		}
		if n := len(c38StoredGSOS(t, st).Shares); n != 0 {
			t.Fatalf("control: tampered content stored, %d entries", n)
		}
	}

	// CONTROL: participating miner A publishes its message -> accepted
	if _, err := msc.shareSignsOrShares(c38Txn(a.id), inputA, gn, st); err != nil {
		t.Fatalf("control: participating miner A rejected: %v", err)
	}
	if _, ok := c38StoredGSOS(t, st).Shares[a.id]; !ok {
		t.Fatalf("control: A's entry is not stored")
	}
	// participating miner B publishes its message -> accepted
	if _, err := msc.shareSignsOrShares(c38Txn(b.id), inputB, gn, st); err != nil {
		t.Fatalf("control: participating miner B rejected: %v", err)
	}
	// a second message of A is refused (one entry per sender)
	if _, err := msc.shareSignsOrShares(c38Txn(a.id), inputA, gn, st); err == nil {
		t.Fatalf("control: second message of A was accepted")
	}

	// only 2 of the required K=3 DKG miners published: the phase can not move
	pn, err := GetPhaseNode(st)
	if err != nil {
		t.Fatalf("get phase node: %v", err)
	}
	errBefore := msc.moveToWait(st, pn, gn)
	if errBefore == nil {
		t.Fatalf("setup: moveToWait passes with 2 publishers and K=%d", dkgK)
	}
	t.Logf("moveToWait with publishers {A,B}: %v", errBefore)

	// ---- THE REPLAY: outsider X re-sends A's on-chain message byte for byte --
	resp, err := msc.shareSignsOrShares(c38Txn(outsider.id), inputA, gn, st)

	gsos := c38StoredGSOS(t, st)
	entry, stored := gsos.Shares[outsider.id]

	if err != nil {
		if stored {
			t.Fatalf("outsider rejected (%v) but its entry is stored anyway", err)
		}
		t.Logf("outsider rejected: %v", err)
		return // PASS: a non participant can not publish share or signs
	}
	if !stored {
		t.Logf("call returned no error but nothing was stored for the outsider (resp %q)", resp)
		return
	}

	// ---- the defect is present: describe the consequences --------------------
	var ids []string
	for id := range gsos.Shares {
		ids = append(ids, id[:8])
	}
	sort.Strings(ids)
	errAfter := msc.moveToWait(st, pn, gn)
	dmnAfter, _ := getDKGMinersList(st)
	entryJSON, _ := json.Marshal(entry)
	if len(entryJSON) > 160 {
		entryJSON = append(entryJSON[:160], "..."...)
	}
	t.Fatalf("shareSignsOrShares accepted a sender that is NOT in the DKG miners list: "+
		"outsider %s.. replayed miner A's (%s..) message and is stored as gsos.Shares[outsider] "+
		"(entry id rewritten to the outsider: %v). Stored entries: %d %v while only 2 DKG miners "+
		"published (K=%d). moveToWait before the replay: %q; after the replay: %v (nil = phase moves "+
		"to Wait). RevealedShares[D] = %d after one genuine reveal per publisher (A,B) + the replay. "+
		"Stored entry: %s",
		outsider.id[:8], a.id[:8], entry.ID == outsider.id, len(gsos.Shares), ids, dkgK,
		errBefore.Error(), errAfter, dmnAfter.RevealedShares[d.id], entryJSON)
}
