package state

// Replay of obligation (*StateContext).AddTransfer/post[only-sender-or-called-contract]#1
// (property C04), solver model: t.ClientID differs from both txn.ClientID and txn.ToClientID.
import (
	"sync"
	"testing"

	"0chain.net/chaincore/state"
	"0chain.net/chaincore/transaction"
	"0chain.net/core/encryption"
)

func TestVerifReplay_C04_AddTransfer_third_party_source(t *testing.T) {
	sender, contract, victim, thief := encryption.Hash("sender"), encryption.Hash("contract"), encryption.Hash("victim"), encryption.Hash("thief")
	txn := &transaction.Transaction{}
	txn.ClientID, txn.ToClientID = sender, contract
	sc := &StateContext{txn: txn, mutex: new(sync.Mutex)}
	// a transfer out of an account that is neither the sender nor the called contract
	if err := sc.AddTransfer(state.NewTransfer(victim, thief, 1000)); err == nil {
		t.Fatalf("a transfer from a third account (%s...) was queued: %d transfers", victim[:8], len(sc.GetTransfers()))
	}
	if err := sc.AddTransfer(state.NewTransfer(sender, contract, 5)); err != nil {
		t.Fatalf("transfer from the sender rejected: %v", err)
	}
	if err := sc.AddTransfer(state.NewTransfer(contract, sender, 5)); err != nil {
		t.Fatalf("transfer from the called contract rejected: %v", err)
	}
}
