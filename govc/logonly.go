package main

import (
	"strings"

	"golang.org/x/tools/go/ssa"
)

// Log-only code elimination.
//
// Structured logging (logging.Logger.X(msg, zap.String(..), zap.Any(..), ...)) builds a variadic
// slice, boxes every field value and calls field constructors. None of that can influence the
// modelled state, but every allocation costs zero-initialisation facts in the VC. An instruction
// is skipped when its value can only flow into a logging call. The set S of log-only values is the
// greatest set such that every use of a member is (a) a logging call, (b) another member of S,
// (c) a store whose address is in S (writing into log-only memory). Loads from S memory are not
// members, so memory that is read back is never log-only.
// What is dropped: the evaluation of log arguments' boxing/field construction (so a panic inside a
// zap field constructor is not seen by nopanic obligations) - recorded as an assumption.

func isLoggingCall(cc *ssa.CallCommon) bool {
	n := calleeName(cc)
	if n == "" {
		return false
	}
	if strings.HasPrefix(n, "(*go.uber.org/zap.Logger).") {
		m := strings.TrimPrefix(n, "(*go.uber.org/zap.Logger).")
		switch m {
		case "Panic", "Fatal", "DPanic":
			return false // these end the path / are panic sites: keep them
		}
		return true
	}
	return strings.HasPrefix(n, "(*go.uber.org/zap.SugaredLogger).")
}

func computeLogOnly(fn *ssa.Function) map[ssa.Instruction]bool {
	skip := map[ssa.Instruction]bool{}
	S := map[ssa.Value]bool{}
	nlog := 0
	for _, b := range fn.Blocks {
		for _, in := range b.Instrs {
			v, ok := in.(ssa.Value)
			if !ok {
				continue
			}
			switch x := v.(type) {
			case *ssa.Alloc, *ssa.IndexAddr, *ssa.FieldAddr, *ssa.Slice, *ssa.MakeInterface, *ssa.ChangeType, *ssa.ChangeInterface:
				S[v] = true
			case *ssa.Call:
				if isLoggingCall(x.Common()) {
					S[v] = true
					nlog++
				} else if strings.HasPrefix(calleeName(x.Common()), "go.uber.org/zap.") {
					S[v] = true // field constructors
				}
			}
		}
	}
	if nlog == 0 {
		return skip
	}
	okUse := func(v ssa.Value, r ssa.Instruction) bool {
		switch x := r.(type) {
		case *ssa.DebugRef:
			return true
		case *ssa.Store:
			if av, ok := x.Addr.(ssa.Value); ok && S[av] {
				return true
			}
			return false
		}
		if rv, ok := r.(ssa.Value); ok && S[rv] {
			return true
		}
		return false
	}
	for changed := true; changed; {
		changed = false
		for v := range S {
			if c, isCall := v.(*ssa.Call); isCall && isLoggingCall(c.Common()) {
				continue
			}
			refs := v.Referrers()
			drop := refs == nil
			if !drop {
				// an address derived from a base outside S writes into memory that is not log-only
				switch x := v.(type) {
				case *ssa.IndexAddr:
					drop = !S[x.X]
				case *ssa.FieldAddr:
					drop = !S[x.X]
				case *ssa.Slice:
					drop = !S[x.X]
				}
			}
			if !drop {
				for _, r := range *refs {
					if !okUse(v, r) {
						drop = true
						break
					}
				}
			}
			if drop {
				delete(S, v)
				changed = true
			}
		}
	}
	for _, b := range fn.Blocks {
		for _, in := range b.Instrs {
			if v, ok := in.(ssa.Value); ok && S[v] {
				skip[in] = true
			}
			if st, ok := in.(*ssa.Store); ok {
				if av, ok := st.Addr.(ssa.Value); ok && S[av] {
					skip[in] = true
				}
			}
		}
	}
	return skip
}
