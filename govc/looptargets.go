package main

import (
	"go/types"
	"strings"

	"golang.org/x/tools/go/ssa"
)

// contractPkg: the Go package a contract belongs to (iface contracts carry "pkg.Iface").
func contractPkg(ct *FuncContract) string {
	if ct == nil {
		return ""
	}
	if ct.Kind == "iface" {
		if i := strings.LastIndex(ct.Pkg, "."); i > strings.LastIndex(ct.Pkg, "/") {
			return ct.Pkg[:i]
		}
	}
	return ct.Pkg
}

type staticTarget struct {
	sort Sort
	dyn  int
	slot int
}

// lookupContract finds the contract a call would be replaced by (as in call()).
func (vc *VC) lookupContract(cc *ssa.CallCommon) (*FuncContract, []string, []types.Type, bool) {
	var argT []types.Type
	if cc.IsInvoke() {
		key := ifaceKey(cc)
		ct, ok := vc.CS.Funcs[key]
		if !ok {
			if n, isN := cc.Value.Type().(*types.Named); isN && n.Obj().Pkg() != nil {
				cnt := 0
				for _, k := range sortedKeys(vc.CS.Funcs) {
					c := vc.CS.Funcs[k]
					if c.Kind == "iface" && strings.HasPrefix(c.Pkg, n.Obj().Pkg().Path()+".") && c.Name == cc.Method.Name() {
						ct = c
						cnt++
					}
				}
				ok = cnt == 1
			}
		}
		if !ok {
			return nil, nil, nil, false
		}
		argT = append(argT, cc.Value.Type())
		for _, a := range cc.Args {
			argT = append(argT, a.Type())
		}
		return ct, ifaceParamNames(cc, ct), argT, true
	}
	if _, isClosure := cc.Value.(*ssa.MakeClosure); isClosure {
		return nil, nil, nil, false
	}
	callee := cc.StaticCallee()
	if callee == nil {
		return nil, nil, nil, false
	}
	key := funcKey(callee)
	if callee.Origin() != nil {
		key = funcKey(callee.Origin())
	}
	ct, ok := vc.CS.Funcs[key]
	if !ok {
		return nil, nil, nil, false
	}
	for _, a := range cc.Args {
		argT = append(argT, a.Type())
	}
	return ct, calleeParamNames(callee, ct), argT, true
}

// contractLoopTargets translates the modifies clauses of the contract a call stands for into
// typed havoc targets (object type + slot), for use at a loop header where the actual argument
// values of the arbitrary iteration are not known.
func (vc *VC) contractLoopTargets(cc *ssa.CallCommon) ([]staticTarget, []string, bool) {
	ct, names, argT, ok := vc.lookupContract(cc)
	if !ok {
		return nil, nil, false
	}
	if ct.Flags["pure"] || (!ct.HasMod && ct.Kind == "assume") {
		return nil, nil, true
	}
	if ct.ModAll || !ct.HasMod {
		return nil, nil, false
	}
	env := map[string]types.Type{}
	for i, n := range names {
		if i < len(argT) {
			env[n] = argT[i]
		}
	}
	var typeOf func(e Expr) types.Type
	typeOf = func(e Expr) types.Type {
		switch x := e.(type) {
		case *EIdent:
			return env[x.Name]
		case *ESel:
			bt := typeOf(x.X)
			if bt == nil {
				return nil
			}
			_, ft, ok := findField(bt, x.Name)
			if !ok {
				return nil
			}
			return ft
		case *EIndex:
			bt := typeOf(x.X)
			if bt == nil {
				return nil
			}
			switch u := bt.Underlying().(type) {
			case *types.Slice:
				return u.Elem()
			case *types.Map:
				return u.Elem()
			}
		}
		return nil
	}
	var out []staticTarget
	var ghosts []string
	for _, m := range ct.Modifies {
		switch x := m.E.(type) {
		case *EIdent:
			if strings.HasPrefix(x.Name, "$") {
				ghosts = append(ghosts, x.Name)
				continue
			}
			return nil, nil, false
		case *ESel:
			if c, isC := x.X.(*ECall); isC && c.Fn == "any" && len(c.Args) == 1 {
				ev := &Eval{vc: vc, env: map[string]EVal{}, bound: map[string]EVal{}, pkgPath: contractPkg(ct)}
				T, err := ev.resolveTypeName(c.Args[0])
				if err != nil {
					return nil, nil, false
				}
				id, isBase := vc.baseType(T)
				path, ft, okf := findField(T, x.Name)
				if !isBase || !okf || len(path) != 1 {
					return nil, nil, false
				}
				off, _ := vc.L.FieldOffset(T.Underlying().(*types.Struct), path[0])
				for i, l := range vc.L.Leaves(ft) {
					out = append(out, staticTarget{l.Sort, id, off + i})
				}
				continue
			}
			bt := typeOf(x.X)
			if bt == nil {
				return nil, nil, false
			}
			if p, isP := bt.Underlying().(*types.Pointer); isP {
				bt = p.Elem()
			}
			id, isBase := vc.baseType(bt)
			if !isBase {
				return nil, nil, false
			}
			if x.Name == "$all" {
				for s := Sort(0); s < nSorts; s++ {
					out = append(out, staticTarget{s, id, -1})
				}
				continue
			}
			path, ft, ok := findField(bt, x.Name)
			if !ok || len(path) != 1 {
				return nil, nil, false
			}
			off, _ := vc.L.FieldOffset(bt.Underlying().(*types.Struct), path[0])
			for i, l := range vc.L.Leaves(ft) {
				out = append(out, staticTarget{l.Sort, id, off + i})
			}
		case *EIndex:
			bt := typeOf(x.X)
			if bt == nil {
				return nil, nil, false
			}
			if _, isSl := bt.Underlying().(*types.Slice); !isSl {
				return nil, nil, false
			}
			id, ok := vc.backingType(bt)
			if !ok {
				return nil, nil, false
			}
			for i, l := range vc.L.Leaves(sliceElem(bt)) {
				out = append(out, staticTarget{l.Sort, id, i})
			}
		default:
			return nil, nil, false
		}
	}
	return out, ghosts, true
}

// loopStoresField: may the loop body overwrite the given field (of any object of that struct
// type)? Conservative: direct stores to the same (struct type, field), and calls whose effect
// on reference-typed slots is unknown or includes them.
func (vc *VC) loopStoresField(li *loopInfo, fa *ssa.FieldAddr) bool {
	st := fa.X.Type().Underlying().(*types.Pointer).Elem()
	for b := range li.body {
		for _, in := range b.Instrs {
			switch x := in.(type) {
			case *ssa.Store:
				if f2, ok := x.Addr.(*ssa.FieldAddr); ok {
					t2 := f2.X.Type().Underlying().(*types.Pointer).Elem()
					if types.Identical(t2, st) && f2.Field == fa.Field {
						return true
					}
					continue
				}
				// a store through another kind of address (element of a slice, local variable):
				// it can only hit the field if it writes a reference-sorted leaf through an
				// interior pointer; stores of whole structs of the same type are covered too
				if types.Identical(x.Val.Type(), st) {
					return true
				}
			case ssa.CallInstruction:
				cc := x.Common()
				if _, isB := cc.Value.(*ssa.Builtin); isB {
					continue
				}
				if vc.callIsPure(cc) || isLockOp(calleeName(cc)) != "" {
					continue
				}
				if n := calleeName(cc); strings.HasPrefix(n, "sort.") || strings.HasPrefix(n, "sync/atomic.") {
					continue
				}
				ts, _, ok := vc.contractLoopTargets(cc)
				if !ok {
					return true
				}
				for _, t := range ts {
					if t.sort == SRef {
						return true
					}
				}
			case *ssa.Go, *ssa.Send, *ssa.Select:
				return true
			}
		}
	}
	return false
}

// closureRef: a function literal passed as an argument, and the VC in which its bindings live.
type closureRef struct {
	mc    *ssa.MakeClosure
	owner *VC
}
