package main

import (
	"fmt"
	"go/types"
	"strings"

	"golang.org/x/tools/go/ssa"
)

// ---------------------------------------------------------------- sorted <slice> by <order>
//
// `sorted[label] S by R($a, $b)` in a function contract attaches to the sort.Slice / sort.SliceStable
// call whose slice is the variable S. R is a strict order over two ELEMENTS ($a comes before $b).
//  (1) obligation  <func>/sorted[label]/comparator-is-the-stated-order: for arbitrary in-range indices
//      i, j the comparator closure passed to the sort call returns R(S[i], S[j]) - checked by inlining
//      the real closure body with symbolic arguments;
//  (2) assumption after the call (this is what package sort guarantees for a comparator that is a
//      strict weak order - listed as an assumption on the standard library): for all positions
//      k1 < k2 of the result, not R(S[k2], S[k1]).
// Without such a clause a sort call only permutes (vccall.go).

// ssaValueNamed: is the SSA value v the value of the source variable `name` (a load from that
// variable's cell, or a value a debug reference ties to that name)?
func ssaValueNamed(fn *ssa.Function, v ssa.Value, name string) bool {
	if u, ok := v.(*ssa.UnOp); ok {
		if a, isA := u.X.(*ssa.Alloc); isA && a.Comment == name {
			return true
		}
	}
	if p, ok := v.(*ssa.Parameter); ok && p.Name() == name {
		return true
	}
	for _, b := range fn.Blocks {
		for _, in := range b.Instrs {
			if dr, ok := in.(*ssa.DebugRef); ok && !dr.IsAddr && dr.X == v {
				if obj := dr.Object(); obj != nil && obj.Name() == name {
					return true
				}
			}
		}
	}
	return false
}

func (vc *VC) applySortSpec(in ssa.Instruction, cc *ssa.CallCommon, sv ssa.Value, pre Heap, h *Heap) bool {
	root := vc.root()
	if root.ct == nil || len(root.ct.SortedBy) == 0 || vc.parent != nil || len(cc.Args) < 2 {
		return false
	}
	s := vc.val1(sv)
	blk := in.Block()
	for idx := range root.ct.SortedBy {
		sp := &root.ct.SortedBy[idx]
		if !ssaValueNamed(vc.fn, sv, sp.Name) {
			continue
		}
		sp.Seen++
		label := sp.Label
		if label == "" {
			label = sp.Name
		}
		pos := vc.pos(in.Pos())
		oname := fmt.Sprintf("%s/sorted[%s]/comparator-is-the-stated-order@%s", root.key, label, pos)
		var fn *ssa.Function
		var mc *ssa.MakeClosure
		switch c := cc.Args[1].(type) {
		case *ssa.MakeClosure:
			mc = c
			fn, _ = c.Fn.(*ssa.Function)
		case *ssa.Function:
			fn = c
		}
		if fn == nil || len(fn.Params) != 2 || !vc.canInline(fn) {
			vc.addObl(&Obligation{Name: oname, Kind: "sorted", Goal: "false", Pos: pos,
				Src: "the comparator of this sort call is not a function literal that can be inlined"})
			return true
		}
		subst := func(a, b string) string {
			o := strings.ReplaceAll(sp.Order, "$a", "("+sp.Name+"["+a+"])")
			return strings.ReplaceAll(o, "$b", "("+sp.Name+"["+b+"])")
		}
		// (1) the comparator is the stated order
		ci := vc.declare(vc.fresh("sort_i"), "Int")
		cj := vc.declare(vc.fresh("sort_j"), "Int")
		n := "(s_len " + s + ")"
		inRange := "(and (<= 0 " + ci + ") (< " + ci + " " + n + ") (<= 0 " + cj + ") (< " + cj + " " + n + "))"
		nonEmpty := "(> " + n + " 0)"
		vc.assume(implies(nonEmpty, inRange))
		saveR := vc.curR
		hc := pre.clone()
		vc.inlineArgTerms = map[int][]string{0: {ci}, 1: {cj}}
		res := vc.inline(in, fn, mc, nil, &hc, types.Typ[types.Bool])
		vc.inlineArgTerms = nil
		afterR := vc.curR
		vc.curR = saveR
		if len(res) != 1 {
			vc.addObl(&Obligation{Name: oname, Kind: "sorted", Goal: "false", Pos: pos, Src: "the comparator does not return a bool"})
			return true
		}
		eqE, err := ParseExpr("$less <==> (" + subst("$srt_i", "$srt_j") + ")")
		if err != nil {
			vc.fail("sorted %s by %s: %v", sp.Name, sp.Order, err)
		}
		ev := vc.newEval(vc.fn, pre, vc.heap0, nil)
		vc.atInstr = in
		ev.resolve = func(nm string) (EVal, bool) { return vc.resolveLocalAtBlock(ev, nm, blk) }
		ev.bound["$less"] = EVal{T: types.Typ[types.Bool], Terms: []string{res[0]}}
		ev.bound["$srt_i"] = EVal{T: types.Typ[types.Int], Terms: []string{ci}}
		ev.bound["$srt_j"] = EVal{T: types.Typ[types.Int], Terms: []string{cj}}
		vc.goalClause(ev, Clause{Label: "", Src: "comparator(i, j) <==> " + subst("i", "j"), E: eqE, Line: sp.Line}, oname, "sorted",
			and(saveR, nonEmpty, afterR), pos)
		vc.atInstr = nil
		if !sp.AssumeOrdered {
			return true
		}
		vc.atInstr = in
		// (2) the result is ordered
		ordE, err := ParseExpr("forall srtk1 in 0..len(" + sp.Name + ") :: (forall srtk2 in srtk1+1..len(" + sp.Name + ") :: !(" + subst("srtk2", "srtk1") + "))")
		if err != nil {
			vc.fail("sorted %s by %s: %v", sp.Name, sp.Order, err)
		}
		ev2 := vc.newEval(vc.fn, *h, vc.heap0, nil)
		ev2.resolve = func(nm string) (EVal, bool) { return vc.resolveLocalAtBlock(ev2, nm, blk) }
		t, err := ev2.boolExpr(ordE, false)
		vc.atInstr = nil
		if err != nil {
			vc.fail("sorted %s by %s: %v", sp.Name, sp.Order, err)
		}
		vc.flushSkolems(ev2, vc.curR)
		vc.assume(implies(vc.curR, t))
		root.assumed["package sort orders a slice by its comparator when that is a strict weak order (sorted "+sp.Name+" by "+sp.Order+")"] = true
		return true
	}
	return false
}
