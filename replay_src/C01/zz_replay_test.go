package chain

// Replay for property C01 (obligation (*Chain).transferAmount/post[moved-exactly] with the ledger keyed by
// the trie leaf an id addresses): the state trie's full nodes map 'A'-'F' and 'a'-'f' to the same child
// (github.com/0chain/common core/util FullNode.index), and encryption.IsHash accepts upper-case hex. A send
// from an account to ITS OWN id with the first hex digit upper-cased passes the `fromClient == toClient`
// check of transferAmount, reads the same leaf twice through two cache entries, and writes it twice: the
// sum of all balances changes by the transferred value while the from+to assertion still passes.
import (
	"context"
	"strings"
	"testing"

	"0chain.net/chaincore/block"
	"0chain.net/chaincore/state"
	"0chain.net/chaincore/transaction"
	"0chain.net/core/encryption"
	"github.com/0chain/common/core/currency"
	"github.com/0chain/common/core/logging"
	"github.com/0chain/common/core/statecache"
	"github.com/0chain/common/core/util"
	"go.uber.org/zap"
)

func c01Total(t *testing.T, mpt util.MerklePatriciaTrieI) currency.Coin {
	var sum currency.Coin
	err := mpt.Iterate(context.Background(), func(ctx context.Context, path util.Path, key util.Key, node util.Node) error {
		ln, ok := node.(*util.LeafNode)
		if !ok {
			return nil
		}
		s := &state.State{}
		if err := s.Decode(ln.GetValueBytes()); err != nil {
			return err
		}
		sum += s.Balance
		return nil
	}, util.NodeTypeLeafNode)
	if err != nil {
		t.Fatal(err)
	}
	return sum
}

func TestVerifReplay_C01_self_alias_send(t *testing.T) {
	logging.Logger = zap.NewNop()
	c := NewChainFromConfig()
	mpt := util.NewMerklePatriciaTrie(util.NewMemoryNodeDB(), 1, nil, statecache.NewEmpty())
	// two accounts whose ids start with different digits, so the root is a full node
	a := "e6ed" + strings.Repeat("0", 60)
	b := "16ed" + strings.Repeat("0", 60)
	for _, id := range []string{a, b} {
		s := &state.State{Balance: 100000}
		if err := s.SetTxnHash(encryption.Hash("genesis")); err != nil {
			t.Fatal(err)
		}
		if _, err := mpt.Insert(util.Path(id), s); err != nil {
			t.Fatal(err)
		}
	}
	before := c01Total(t, mpt)
	alias := "E" + a[1:]
	if !encryption.IsHash(alias) {
		t.Skip("alias is not accepted as an id")
	}
	prev := block.Provider().(*block.Block)
	prev.Round, prev.Hash, prev.ClientStateHash = 1, encryption.Hash("b1"), mpt.GetRoot()
	blk := block.Provider().(*block.Block)
	blk.Round, blk.Hash, blk.PrevHash, blk.PrevBlock = 2, encryption.Hash("b2"), prev.Hash, prev
	txn := &transaction.Transaction{ClientID: a, ToClientID: alias, Value: 1000, TransactionType: transaction.TxnTypeSend, Nonce: 1}
	txn.Hash = encryption.Hash("t1")
	bc := statecache.NewBlockCache(statecache.NewStateCache(), statecache.Block{Round: blk.Round, Hash: blk.Hash, PrevHash: blk.PrevHash})
	_, err := c.updateState(context.Background(), blk, mpt, txn, bc)
	after := c01Total(t, mpt)
	t.Logf("send %s -> %s of 1000: err=%v, sum of balances %d -> %d", a[:8], alias[:8], err, before, after)
	if after != before {
		t.Fatalf("the sum of all balances changed from %d to %d (err=%v)", before, after, err)
	}
}
