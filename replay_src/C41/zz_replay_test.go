package chain

// Replay of obligation (*Chain).verifyLFBTicket/post[signer-is-current-sharder]#1 (property C41):
// a correctly signed LFB ticket from a registered MINER that is not a sharder of the current magic
// block must not be adopted.
import (
	"sync"
	"testing"

	"0chain.net/chaincore/block"
	"0chain.net/chaincore/node"
	"0chain.net/chaincore/round"
	"0chain.net/core/encryption"
	"github.com/0chain/common/core/logging"
	"go.uber.org/zap"
)

func init() { logging.Logger = zap.NewNop() }

func replayNode(t *testing.T, typ node.NodeType) (*node.Node, encryption.SignatureScheme) {
	ss := encryption.NewED25519Scheme()
	if err := ss.GenerateKeys(); err != nil {
		t.Fatal(err)
	}
	n := node.Provider()
	n.Type = typ
	n.SetSignatureSchemeType("ed25519")
	if err := n.SetPublicKey(ss.GetPublicKey()); err != nil {
		t.Fatal(err)
	}
	n.ID = encryption.Hash(n.PublicKeyBytes)
	node.RegisterNode(n)
	return n, ss
}

func TestVerifReplay_C41_ticket_signed_by_miner(t *testing.T) {
	miner, minerKey := replayNode(t, node.NodeTypeMiner)
	sharder, sharderKey := replayNode(t, node.NodeTypeSharder)

	mb := block.NewMagicBlock()
	mb.Miners = node.NewPool(node.NodeTypeMiner)
	mb.Sharders = node.NewPool(node.NodeTypeSharder)
	if err := mb.Miners.AddNode(miner); err != nil {
		t.Fatal(err)
	}
	if err := mb.Sharders.AddNode(sharder); err != nil {
		t.Fatal(err)
	}
	c := &Chain{}
	c.mbMutex = sync.RWMutex{}
	c.roundsMutex = &sync.RWMutex{}
	c.MagicBlockStorage = round.NewRoundStartingStorage()
	c.SetMagicBlock(mb)

	sign := func(id string, key encryption.SignatureScheme) *LFBTicket {
		tk := &LFBTicket{Round: 100, SharderID: id, LFBHash: encryption.Hash("lfb")}
		sig, err := key.Sign(tk.Hash())
		if err != nil {
			t.Fatal(err)
		}
		tk.Sign = sig
		return tk
	}
	if !c.verifyLFBTicket(sign(sharder.ID, sharderKey)) {
		t.Fatal("a ticket signed by a sharder of the current magic block was rejected")
	}
	if c.verifyLFBTicket(sign(miner.ID, minerKey)) {
		t.Fatal("an LFB ticket signed by a miner (not a sharder of the current magic block) was accepted")
	}
}
