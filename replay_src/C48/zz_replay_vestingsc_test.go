package vestingsc

// Replay of obligation (*VestingSmartContract).updateConfig/at-call@InsertTrieNode[validated-when-saved]#1.2,
// property C48: update_config writes the changed configuration back without ever calling
// config.validate(): the owner's transaction {"max_duration": "1s"} (below the stored min_duration of 2m)
// is accepted and the invalid configuration is stored.
import (
	"testing"
	"time"

	cstate "0chain.net/chaincore/chain/state"
	"0chain.net/chaincore/transaction"
	"github.com/0chain/common/core/logging"
	"github.com/0chain/common/core/util"
	"go.uber.org/zap"
)

type c48Ctx struct {
	cstate.StateContextI
	stored *config
	saved  *config
}

func (c *c48Ctx) GetTrieNode(_ string, v util.MPTSerializable) error {
	*(v.(*config)) = *c.stored
	return nil
}
func (c *c48Ctx) InsertTrieNode(k string, v util.MPTSerializable) (string, error) {
	c.saved = v.(*config)
	return k, nil
}

func TestVerifReplay_C48_vesting_config_validated_before_save(t *testing.T) {
	logging.Logger = zap.NewNop()
	ctx := &c48Ctx{stored: &config{MinLock: 1, MinDuration: 2 * time.Minute, MaxDuration: 10 * time.Minute,
		MaxDestinations: 3, MaxDescriptionLength: 20, OwnerId: "owner", Cost: map[string]int{}}}
	if err := ctx.stored.validate(); err != nil {
		t.Fatalf("the stored configuration must be valid: %v", err)
	}
	vsc := &VestingSmartContract{}
	txn := &transaction.Transaction{ClientID: "owner"}
	_, err := vsc.updateConfig(txn, []byte(`{"fields":{"max_duration":"1s"}}`), ctx)
	if err != nil {
		return // rejected: fine
	}
	if ctx.saved == nil {
		t.Fatalf("accepted but nothing saved")
	}
	if verr := ctx.saved.validate(); verr != nil {
		t.Fatalf("update_config accepted and stored a configuration that does not pass validate(): %v (min %v max %v)",
			verr, ctx.saved.MinDuration, ctx.saved.MaxDuration)
	}
}
