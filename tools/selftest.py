#!/usr/bin/env python3
"""Must-fail / must-pass mutant corpus: every property-breaking mutant must make its check report a
VIOLATION naming the expected obligation; every harmless mutant must still verify.
usage: selftest.py [name-substring ...]"""
import json, subprocess, sys, os
R = '/repo'
muts = json.load(open('/verif/selftest/mutants.json'))
sel = sys.argv[1:]
if subprocess.run(['git', '-C', R, 'status', '--porcelain'], capture_output=True, text=True).stdout.strip():
    print('REFUSING: /repo has uncommitted changes'); sys.exit(9)
bad = 0
for m in muts:
    if sel and not any(s in m['name'] for s in sel):
        continue
    p = os.path.join(R, m['file'])
    src = open(p).read()
    if src.count(m['old']) != 1:
        print(f"SKIP-BROKEN {m['name']}: pattern occurs {src.count(m['old'])} times"); bad += 1; continue
    open(p, 'w').write(src.replace(m['old'], m['new']))
    try:
        r = subprocess.run(['/verif/bin/govc', 'check', m['prop']], capture_output=True, text=True, cwd='/verif', timeout=1200)
    finally:
        open(p, 'w').write(src)
    viol = [l for l in r.stdout.splitlines() if l.startswith('VIOLATION') or l.startswith('TOOL-ERROR')]
    if m['expect'] == '':
        ok = r.returncode == 0 and not viol
        kind = 'must-pass'
    else:
        ok = r.returncode == 1 and any(m['expect'] in l for l in viol)
        kind = 'must-fail'
    print(('ok   ' if ok else 'FAIL ') + kind + ' ' + m['name'] + ('' if ok else f"  rc={r.returncode} " + ' | '.join(l[:160] for l in viol[:3])))
    if not ok:
        bad += 1
subprocess.run(['git', '-C', R, 'checkout', '--', '.'])
sys.exit(1 if bad else 0)
