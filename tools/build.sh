#!/bin/bash
cd /verif/govc && GOFLAGS=-mod=mod GOWORK=off GOPROXY=off GOSUMDB=off GOTOOLCHAIN=local go build -o /verif/bin/govc . 
