package minersc

// Replay for obligation
//   (*MinerSmartContract).shareSignsOrShares/at-call@Validate[validated-as-the-senders-message]
// (C38: "shares are accepted only ... with ... valid content").
//
// shareSignsOrShares validates the decoded message BEFORE it overwrites the message's id with the
// sender's: ShareOrSigns.Validate checks revealed shares against mpks.Mpks[sos.ID], the public key of
// whatever id the PAYLOAD names.
//   (1) participant C publishes participant B's message unchanged: it validates (as B's) and is stored
//       as C's - C's own shares were never checked;
//   (2) a payload naming an id without a public key makes Validate dereference a nil *MPK: the smart
//       contract panics (it runs in a goroutine without recover: the node goes down).
//
// Uses the state stub and helpers of zz_replay_test.go (same directory, same overlay).

import (
	"testing"

	"0chain.net/chaincore/block"
	"0chain.net/chaincore/node"
	"0chain.net/chaincore/threshold/bls"
	"github.com/0chain/common/core/logging"
	"go.uber.org/zap"
)

func c38PublishSetup(t *testing.T) (*c38State, *MinerSmartContract, *GlobalNode, []*c38Node) {
	t.Helper()
	logging.Logger = zap.NewNop()
	const dkgT, dkgK, dkgN = 2, 3, 4
	st := newC38State(100)
	msc := &MinerSmartContract{}
	miners := []*c38Node{newC38Node(t, "A"), newC38Node(t, "B"), newC38Node(t, "C"), newC38Node(t, "D")}
	pmb := block.NewMagicBlock()
	pmb.Miners = node.NewPool(node.NodeTypeMiner)
	pmb.Miners.NodesMap[miners[0].id] = &node.Node{}
	pmb.Sharders = node.NewPool(node.NodeTypeSharder)
	gn := &GlobalNode{PrevMagicBlock: pmb}
	dmn := NewDKGMinerNodes()
	dmn.T, dmn.K, dmn.N = dkgT, dkgK, dkgN
	for _, m := range miners {
		sn := &SimpleNode{PublicKey: m.scheme.GetPublicKey(), ShortName: m.name}
		sn.ID = m.id
		dmn.SimpleNodes[m.id] = sn
		m.dkg = bls.MakeDKG(dkgT, dkgN, m.id)
	}
	if err := updateDKGMinersList(st, dmn); err != nil {
		t.Fatalf("store dkg miners: %v", err)
	}
	c38SetPhase(t, st, Contribute)
	for _, m := range miners {
		mpk := &block.MPK{ID: m.id}
		for _, pk := range m.dkg.GetMPKs() {
			mpk.Mpk = append(mpk.Mpk, pk.GetHexString())
		}
		if _, err := msc.contributeMpk(c38Txn(m.id), mpk.Encode(), gn, st); err != nil {
			t.Fatalf("contributeMpk(%s): %v", m.name, err)
		}
	}
	c38SetPhase(t, st, Publish)
	return st, msc, gn, miners
}

func TestVerifReplay_C38_message_validated_for_another_id(t *testing.T) {
	st, msc, gn, m := c38PublishSetup(t)
	a, b, c, d := m[0], m[1], m[2], m[3]

	// B's genuine message: signatures of A and C, revealed share for silent D
	inputB := c38BuildSOS(t, b, []*c38Node{a, c}, []*c38Node{d}).Encode()

	// C sends B's bytes as its own
	_, err := msc.shareSignsOrShares(c38Txn(c.id), inputB, gn, st)
	entry, stored := c38StoredGSOS(t, st).Shares[c.id]
	if err == nil && stored {
		t.Fatalf("participant C published participant B's message (payload id %s..) as its own: accepted and stored "+
			"as gsos.Shares[C] with id rewritten to C (%v); the revealed share in it is B's share for D, validated "+
			"against B's public key - C's own shares were never checked", b.id[:8], entry.ID == c.id)
	}
	if stored {
		t.Fatalf("rejected (%v) but stored anyway", err)
	}
	t.Logf("foreign message rejected: %v", err)
}

func TestVerifReplay_C38_payload_id_without_key_panics(t *testing.T) {
	st, msc, gn, m := c38PublishSetup(t)
	a, b, c, d := m[0], m[1], m[2], m[3]

	// A's genuine content, but the payload names an id nobody contributed a key for
	sos := c38BuildSOS(t, a, []*c38Node{b, c}, []*c38Node{d})
	sos.ID = "0000000000000000000000000000000000000000000000000000000000000000"
	var (
		err      error
		panicked interface{}
	)
	func() {
		defer func() { panicked = recover() }()
		_, err = msc.shareSignsOrShares(c38Txn(a.id), sos.Encode(), gn, st)
	}()
	if panicked != nil {
		t.Fatalf("shareSignsOrShares panicked on a payload id without a contributed key: %v "+
			"(smart contracts run in a goroutine without recover)", panicked)
	}
	t.Logf("no panic; result: %v", err)
}
