package main

import (
	"go/types"
	"strings"

	"golang.org/x/tools/go/ssa"
)

// ---------------------------------------------------------------- unshared results across opaque calls
//
// An object returned by a contracted call survives a later call of unknown code (havocCall) when
//   - the callee's contract says the result is fresh(...) (allocated during that call),
//   - the callee may write ghost state only (`modifies nothing` / `modifies $g, ...`), so it cannot
//     have stored the pointer in any heap location that existed before the call, and
//   - in the function being translated the pointer has not been stored, captured, converted or passed
//     to any call other than calls by contract with ghost-only frames before the unknown call.
// Then the only handle on the object is the caller's SSA value: the unknown callee cannot reach it.
// For `trusted` contracts this rests on the (listed) assumption that the contract's frame is right.

func ghostOnlyFrame(ct *FuncContract) bool {
	if ct == nil || ct.ModAll {
		return false
	}
	if !ct.HasMod && !ct.Flags["pure"] {
		return false
	}
	for _, m := range ct.Modifies {
		if !strings.HasPrefix(strings.TrimSpace(m.Src), "$") {
			return false
		}
	}
	return true
}

// frameKeepsUnshared: the callee (by its contract's frame) can write ghost state and locations inside
// the object x itself only, so it cannot make x reachable from anything that existed before.
func frameKeepsUnshared(ct *FuncContract, f *ssa.Function, args []ssa.Value, x ssa.Value) bool {
	if ct == nil || ct.ModAll {
		return false
	}
	if !ct.HasMod && !ct.Flags["pure"] {
		return false
	}
	// a result that could carry the pointer back out (anything but scalars and `error`) would share it
	res := f.Signature.Results()
	for i := 0; i < res.Len(); i++ {
		switch t := res.At(i).Type().Underlying().(type) {
		case *types.Basic:
		case *types.Interface:
			if res.At(i).Type().String() != "error" {
				return false
			}
		default:
			_ = t
			return false
		}
	}
	own := map[string]bool{}
	for i, a := range args {
		if a == x && i < len(f.Params) {
			own[f.Params[i].Name()] = true
		}
	}
	for _, m := range ct.Modifies {
		src := strings.TrimSpace(m.Src)
		if strings.HasPrefix(src, "$") {
			continue
		}
		root := src
		if j := strings.IndexAny(root, ".["); j >= 0 {
			root = root[:j]
		}
		if !own[root] {
			return false
		}
	}
	return true
}

func (vc *VC) noteFreshCall(in ssa.Instruction, ct *FuncContract, sig *types.Signature, preAlloc string) {
	if in == nil || ct.Kind == "iface" || !ghostOnlyFrame(ct) {
		return
	}
	idx := map[int]bool{}
	n := sig.Results().Len()
	for _, c := range ct.Ensures {
		src := strings.ReplaceAll(c.Src, " ", "")
		for i := 0; i < n; i++ {
			names := []string{"fresh(result" + itoa(i) + ")"}
			if n == 1 {
				names = append(names, "fresh(result)")
			}
			if nm := sig.Results().At(i).Name(); nm != "" && nm != "_" {
				names = append(names, "fresh("+nm+")")
			}
			for _, nm := range names {
				if strings.Contains(src, nm) {
					idx[i] = true
				}
			}
		}
	}
	if len(idx) == 0 {
		return
	}
	if vc.freshCalls == nil {
		vc.freshCalls = map[ssa.Instruction]freshCall{}
	}
	vc.freshCalls[in] = freshCall{preAlloc: preAlloc, idx: idx}
}

func itoa(i int) string {
	return string(rune('0' + i))
}

// sharedBefore: may the pointer x have been handed to code or memory that an unknown call at `at`
// could reach? Like escapesAt, but a call by contract with a ghost-only frame does not share it.
func (vc *VC) sharedBefore(x ssa.Value, at ssa.Instruction, depth int) bool {
	if depth > 4 {
		return true
	}
	refs := x.Referrers()
	if refs == nil {
		return true
	}
	for _, r := range *refs {
		switch u := r.(type) {
		case *ssa.DebugRef:
			continue
		case *ssa.Store:
			if u.Val == x && canPrecede(u, at) {
				return true
			}
			continue
		case *ssa.UnOp:
			continue // load through the pointer
		case *ssa.FieldAddr:
			if vc.sharedBefore(u, at, depth+1) {
				return true
			}
			continue
		case *ssa.IndexAddr:
			if vc.sharedBefore(u, at, depth+1) {
				return true
			}
			continue
		case *ssa.BinOp:
			continue // comparison with nil / another pointer
		case *ssa.If:
			continue
		case *ssa.Call:
			if u == at {
				return true // passed to the unknown call itself
			}
			if !canPrecede(u, at) {
				continue
			}
			if f := u.Call.StaticCallee(); f != nil && !u.Call.IsInvoke() {
				ct := vc.CS.Funcs[funcKey(f)]
				if ct != nil && !(vc.root().ct != nil && vc.root().ct.Opaque[f.Name()]) && frameKeepsUnshared(ct, f, u.Call.Args, x) {
					continue
				}
			}
			return true
		}
		if canPrecede(r, at) {
			return true
		}
	}
	return false
}

// keepFreshResults: called by havocCall after everything was havocked; restores the contents of
// unshared fresh results.
func (vc *VC) keepFreshResults(h *Heap, old Heap, at ssa.Instruction) {
	if len(vc.freshCalls) == 0 {
		return
	}
	for _, b := range vc.fn.Blocks {
		for _, in := range b.Instrs {
			var callIn ssa.Instruction
			var ri int
			var v ssa.Value
			switch x := in.(type) {
			case *ssa.Extract:
				if c, ok := x.Tuple.(*ssa.Call); ok {
					callIn, ri, v = c, x.Index, x
				}
			case *ssa.Call:
				if x.Call.Signature().Results().Len() == 1 {
					callIn, ri, v = x, 0, x
				}
			}
			if callIn == nil || callIn == at {
				continue
			}
			fc, ok := vc.freshCalls[callIn]
			if !ok || !fc.idx[ri] {
				continue
			}
			pt, isP := v.Type().Underlying().(*types.Pointer)
			if !isP {
				continue
			}
			if _, isS := pt.Elem().Underlying().(*types.Struct); !isS {
				continue
			}
			terms, have := vc.vals[v]
			if !have || len(terms) != 1 {
				continue
			}
			if callIn.Block() == nil || at.Block() == nil || !(callIn.Block() == at.Block() || callIn.Block().Dominates(at.Block())) {
				continue // the result is not defined on every path to the unknown call
			}
			if !canPrecede(callIn, at) || vc.sharedBefore(v, at, 0) {
				continue
			}
			obj := "(p_obj " + terms[0] + ")"
			guard := "(> " + obj + " " + fc.preAlloc + ")"
			done := map[Sort]bool{}
			for _, l := range vc.L.Leaves(pt.Elem()) {
				if done[l.Sort] {
					continue
				}
				done[l.Sort] = true
				vc.assume(implies(guard, eq(sel(h.H[l.Sort], obj), sel(old.H[l.Sort], obj))))
			}
			vc.note("fresh result of " + calleeName(&callIn.(*ssa.Call).Call) + " kept across the unknown call at " + vc.pos(at.Pos()) + " (unshared: returned by a callee with a ghost-only frame, never stored or passed on)")
		}
	}
}

// localGhosts: accumulators updated by `at-call ... ghost $g += e` clauses of the contract being
// verified. Only those clauses write them, so unknown code leaves them alone; loops havoc them.
func (vc *VC) localGhosts() []string {
	r := vc.root()
	if r.ct == nil || len(r.ct.AtCallGhost) == 0 {
		return nil
	}
	seen := map[string]bool{}
	var out []string
	for _, k := range sortedKeys(r.ct.AtCallGhost) {
		for _, c := range r.ct.AtCallGhost[k] {
			if !seen[c.Label] {
				seen[c.Label] = true
				out = append(out, c.Label)
			}
		}
	}
	return out
}
