package minersc

// Replay for obligation
//   (*DKGMinerNodes).reduceNodes/post[keeps-a-previous-miner]
// (C38: "the produced magic block keeps at least one miner ... from the previous set").
//
// reduceNodes checks that the candidate list holds a miner of the previous set BEFORE the final
// selection (SimpleNodes.reduce) and never afterwards. With x_percent = 0 (accepted by
// GlobalNode.validate) no place is reserved for previous members, they compete by stake alone, and the
// final list - the miners of the next magic block - can hold none of them; unlike the sharder side
// there is no add-back.
//
// Uses the state stub of zz_replay_test.go / zz_replay_keepsharder_test.go (same directory, same overlay).

import (
	"testing"

	"0chain.net/chaincore/block"
	"0chain.net/chaincore/node"
	"github.com/0chain/common/core/currency"
	"github.com/0chain/common/core/logging"
	"go.uber.org/zap"
)

func TestVerifReplay_C38_keeps_previous_miner(t *testing.T) {
	logging.Logger = zap.NewNop()

	pmb := block.NewMagicBlock()
	pmb.Miners = node.NewPool(node.NodeTypeMiner)
	pmb.Miners.NodesMap["old"] = &node.Node{}
	pmb.Sharders = node.NewPool(node.NodeTypeSharder)
	lfmb := &block.Block{}
	lfmb.MagicBlock = pmb
	lfmb.RoundRandomSeed = 7
	st := &c38StateLFMB{c38State: newC38State(100), lfmb: lfmb}

	gn := &GlobalNode{MinN: 1, MaxN: 2, XPercent: 0, PrevMagicBlock: pmb}
	if err := gn.validate(); err != nil && gn.MinS >= 1 {
		t.Fatalf("setup: configuration rejected: %v", err)
	}
	dmn := NewDKGMinerNodes()
	dmn.MinN = 1
	for id, stake := range map[string]int64{"old": 1, "new1": 10, "new2": 9} {
		sn := &SimpleNode{TotalStaked: currency.Coin(stake)}
		sn.ID = id
		dmn.SimpleNodes[id] = sn
	}
	if !gn.hasPrevDKGMiner(dmn.SimpleNodes, st) {
		t.Fatalf("setup: the candidate list must hold a previous-set miner")
	}

	err := dmn.reduceNodes(true, gn, st)
	if err != nil {
		t.Logf("selection rejected: %v", err)
		return
	}
	if !gn.hasPrevDKGMiner(dmn.SimpleNodes, st) {
		ids := []string{}
		for id := range dmn.SimpleNodes {
			ids = append(ids, id)
		}
		t.Fatalf("final miner selection %v holds no miner of the previous set (candidates old(prev, stake 1), "+
			"new1(10), new2(9); max_n 2; x_percent 0): reduceNodes returned nil", ids)
	}
}
