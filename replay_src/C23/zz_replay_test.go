package provider

// Replay of obligation ShutDown/at-call@AbstractStakePool.Save[own-pool-under-own-id]#1.2
// (property C23): the provider named in the request is P1, the (authorised) caller is its
// delegate wallet W; the killed stake pool must be saved under P1, not under W.
import (
	"testing"

	cstate "0chain.net/chaincore/chain/state"
	"0chain.net/smartcontract/dbs/event"
	"0chain.net/smartcontract/stakepool"
	"0chain.net/smartcontract/stakepool/spenum"
)

type replayProvider struct{ Provider }

type replayPool struct {
	stakepool.AbstractStakePool // unused methods
	killed  int
	savedAs []string
}

func (p *replayPool) Kill(float64, string, spenum.Provider, cstate.StateContextI) error {
	p.killed++
	return nil
}
func (p *replayPool) Save(_ spenum.Provider, id string, _ cstate.StateContextI) error {
	p.savedAs = append(p.savedAs, id)
	return nil
}
func (p *replayPool) GetSettings() stakepool.Settings {
	return stakepool.Settings{DelegateWallet: "W"}
}

type replayBalances struct{ cstate.StateContextI }

func (replayBalances) EmitEvent(event.EventType, event.EventTag, string, interface{}, ...cstate.Appender) {
}

func TestVerifReplay_C23_ShutDown_saves_under_provider_id(t *testing.T) {
	prov := &replayProvider{Provider{ID: "P1", ProviderType: spenum.Blobber}}
	pool := &replayPool{}
	req := &ProviderRequest{ID: "P1"}
	err := ShutDown(req.Encode(), "W", "OWNER", 0.5,
		func(r ProviderRequest) (AbstractProvider, stakepool.AbstractStakePool, error) {
			if r.ID != "P1" {
				t.Fatalf("loader asked for %q", r.ID)
			}
			return prov, pool, nil
		}, nil, replayBalances{})
	if err != nil {
		t.Fatalf("authorised shutdown by the delegate wallet failed: %v", err)
	}
	if pool.killed != 1 {
		t.Fatalf("stake pool killed %d times", pool.killed)
	}
	if len(pool.savedAs) != 1 || pool.savedAs[0] != "P1" {
		t.Fatalf("killed stake pool of provider P1 was saved under %v (want [P1])", pool.savedAs)
	}
}
