package main

import (
	"flag"
	"fmt"
	"os"
	"path/filepath"
	"strconv"
)

func usage() {
	fmt.Fprintln(os.Stderr, `usage:
  govc shim                          regenerate the grocksdb build overlay
  govc check <PROP> [--tier quick|thorough] [--func substr] [-v]
  govc replay <path>                 re-run a recorded violation
  govc dump <pkg> <func>             print SSA and the VC context of one function`)
	os.Exit(2)
}

func main() {
	if len(os.Args) < 2 {
		usage()
	}
	switch os.Args[1] {
	case "shim":
		p, err := GenShim("/verif/work/shim")
		if err != nil {
			fmt.Fprintln(os.Stderr, err)
			os.Exit(2)
		}
		fmt.Println(p)
	case "check":
		if len(os.Args) < 3 {
			usage()
		}
		fs := flag.NewFlagSet("check", flag.ExitOnError)
		tier := fs.String("tier", envOr("VERIF_TIER", "quick"), "quick|thorough")
		fn := fs.String("func", "", "only functions whose key contains this")
		verbose := fs.Bool("v", false, "verbose")
		timeout := fs.Int("timeout", 0, "per-query timeout in seconds")
		_ = fs.Parse(os.Args[3:])
		opts := CheckOpts{Prop: os.Args[2], Tier: *tier, Verbose: *verbose, OnlyFunc: *fn, WorkDir: filepath.Join(outRoot, "work", "smt")}
		if s, err := strconv.Atoi(os.Getenv("VERIF_SEED")); err == nil {
			opts.Seed = s
		}
		if opts.Tier == "thorough" {
			opts.Timeout, opts.All = 240, true
		} else {
			opts.Tier = "quick"
			// most obligations answer in < 1 s; the slowest claimed one takes 10-20 s on an idle machine and was
			// seen at 50 s under load; a timeout is reported as a violation, so the limit is generous - it only
			// costs time when something really is undecided
			opts.Timeout = 150
		}
		if *timeout > 0 {
			opts.Timeout = *timeout
		}
		os.Exit(RunCheck(opts))
	case "dump":
		if len(os.Args) < 4 {
			usage()
		}
		os.Exit(dumpFunc(os.Args[2], os.Args[3]))
	case "replay":
		if len(os.Args) < 3 {
			usage()
		}
		os.Exit(replayCmd(os.Args[2]))
	default:
		usage()
	}
}

func envOr(k, d string) string {
	if v := os.Getenv(k); v != "" {
		return v
	}
	return d
}

func dumpFunc(pkg, name string) int {
	CS, err := LoadContracts()
	if err != nil {
		fmt.Fprintln(os.Stderr, err)
		return 2
	}
	P, err := LoadProgram([]string{pkg}, nil)
	if err != nil {
		fmt.Fprintln(os.Stderr, err)
		return 2
	}
	fn := P.FindFunc(pkg, name)
	if fn == nil {
		fmt.Fprintln(os.Stderr, "function not found")
		return 2
	}
	fn.WriteTo(os.Stdout)
	ct := CS.Funcs[pkg+"."+name]
	vc := NewVC(P, CS, NewLayout(), fn, ct)
	if err := vc.Generate(); err != nil {
		fmt.Fprintln(os.Stderr, "generate:", err)
		return 2
	}
	for _, d := range vc.decls {
		fmt.Println(d)
	}
	for _, a := range vc.asserts {
		fmt.Println("(assert " + a + ")")
	}
	for _, o := range vc.obls {
		fmt.Printf("; OBLIGATION %s [%s]\n;   %s\n", o.Name, o.Kind, o.Goal)
	}
	for n := range vc.notes {
		fmt.Println("; NOTE", n)
	}
	return 0
}

func replayCmd(path string) int {
	b, err := os.ReadFile(path)
	if err != nil {
		fmt.Fprintln(os.Stderr, err)
		return 2
	}
	fmt.Println(string(b))
	return 0
}

func verifyFunctionBV(P *Program, CS *ContractSet, fn interface{}, ct *FuncContract, opts CheckOpts, fr *FuncReport) *FuncReport {
	fr.Err = "bv mode not implemented"
	fr.Obls = append(fr.Obls, &OblReport{Name: ct.Key() + "/vc-generation", Canon: ct.Key() + "/vc-generation", Kind: "tool", Func: ct.Key(), Verdict: "tool-error", Src: fr.Err})
	return fr
}
