#!/usr/bin/env python3
"""Must-fail / must-pass mutant corpus: every property-breaking mutant must make its check report a
VIOLATION naming the expected obligation; every harmless mutant must still verify.
usage: selftest.py [-j N] [name-substring ...]

The mutants are applied to scratch worktrees of /repo's HEAD under /tmp/st (one per worker) and checked
with GOVC_REPO / GOVC_SCRATCH pointing there, so /repo, /verif/evidence and /verif/replays are not touched
and other work can go on meanwhile. Uncommitted changes of /repo are NOT part of what is tested."""
import json, subprocess, sys, os, shutil, threading, queue
R = '/repo'
args = sys.argv[1:]
jobs = 3
if args and args[0] == '-j':
    jobs = int(args[1]); args = args[2:]
sel = args
muts = [m for m in json.load(open('/verif/selftest/mutants.json')) if not sel or any(s in m['name'] for s in sel)]
if subprocess.run(['git', '-C', R, 'status', '--porcelain'], capture_output=True, text=True).stdout.strip():
    print('NOTE: /repo has uncommitted changes; the self-test runs on HEAD')
jobs = max(1, min(jobs, len(muts)))
base = '/tmp/st'
os.makedirs(base, exist_ok=True)
q = queue.Queue()
for m in muts:
    q.put(m)
lock = threading.Lock()
bad = [0]

def worker(i):
    wt, out = f'{base}/w{i}', f'{base}/o{i}'
    subprocess.run(['git', '-C', R, 'worktree', 'remove', '--force', wt], capture_output=True)
    shutil.rmtree(wt, ignore_errors=True); shutil.rmtree(out, ignore_errors=True)
    r = subprocess.run(['git', '-C', R, 'worktree', 'add', '--detach', wt, 'HEAD'], capture_output=True, text=True)
    if r.returncode != 0:
        with lock:
            print('cannot create worktree', wt, r.stderr[:200]); bad[0] += 1
        return
    os.makedirs(out, exist_ok=True)
    env = dict(os.environ, GOVC_REPO=wt, GOVC_SCRATCH=out)
    try:
        while True:
            try:
                m = q.get_nowait()
            except queue.Empty:
                break
            p = os.path.join(wt, m['file'])
            src = open(p).read()
            if src.count(m['old']) != 1:
                with lock:
                    print(f"SKIP-BROKEN {m['name']}: pattern occurs {src.count(m['old'])} times", flush=True); bad[0] += 1
                continue
            open(p, 'w').write(src.replace(m['old'], m['new']))
            try:
                r = subprocess.run(['/verif/bin/govc', 'check', m['prop']], capture_output=True, text=True, cwd='/verif', timeout=1800, env=env)
            finally:
                open(p, 'w').write(src)
            viol = [l for l in r.stdout.splitlines() if l.startswith('VIOLATION') or l.startswith('TOOL-ERROR')]
            if m['expect'] == '':
                ok = r.returncode == 0 and not viol
                kind = 'must-pass'
            else:
                ok = r.returncode == 1 and any(m['expect'] in l for l in viol)
                kind = 'must-fail'
            with lock:
                print(('ok   ' if ok else 'FAIL ') + kind + ' ' + m['name'] + ('' if ok else f"  rc={r.returncode} " + ' | '.join(l[:160] for l in viol[:3]) + (r.stderr[-200:] if r.returncode not in (0, 1) else '')), flush=True)
                if not ok:
                    bad[0] += 1
    finally:
        subprocess.run(['git', '-C', R, 'worktree', 'remove', '--force', wt], capture_output=True)
        shutil.rmtree(wt, ignore_errors=True); shutil.rmtree(out, ignore_errors=True)

ts = [threading.Thread(target=worker, args=(i,)) for i in range(jobs)]
for t in ts:
    t.start()
for t in ts:
    t.join()
sys.exit(1 if bad[0] else 0)
