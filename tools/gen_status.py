#!/usr/bin/env python3
"""Regenerates the machine-derived tables of DESIGN.md (between the STATUS markers):
claimed checks with obligation counts (from evidence/), findings (known_findings.txt),
seeded changes and what caught them (seeded/*/meta.json), not-applicable list (MANIFEST)."""
import json, glob, os, re
V = '/verif'
man = json.load(open(f'{V}/MANIFEST.json'))
out = []
out.append('### 8.1 Claimed checks (numbers from the last committed evidence files)\n')
out.append('| property | functions under contract | obligations | discharged | known findings | quick wall time |')
out.append('|---|---|---|---|---|---|')
for c in man['checks']:
    pid = c['property_id']
    try:
        e = json.load(open(f'{V}/evidence/{pid}.json'))
        cov = e['coverage']
        nf = len(cov.get('functions_under_contract', []) or [])
        kf = len(cov.get('known_findings_seen', []) or [])
        out.append(f"| {pid} | {nf} | {cov['obligations']} | {cov['discharged']} | {kf} | {e['wall_s']:.0f} s |")
    except Exception as ex:
        out.append(f'| {pid} | ? | ? | ? | ? | ? |')
out.append('')
out.append('### 8.2 Findings (from known_findings.txt)\n')
out.append('| status | property | obligation | what fails |')
out.append('|---|---|---|---|')
for l in open(f'{V}/known_findings.txt'):
    l = l.strip()
    if not l or l.startswith('#'):
        continue
    m = re.match(r'(fixed|known): property=(\S+) (?:(\S+) )?obligation=(\S+) (.*)', l)
    if not m:
        continue
    kind, pid, commit, obl, what = m.groups()
    obl = obl.replace('0chain.net/', '')
    st = f'fixed in {commit}' if kind == 'fixed' else 'known (not repaired)'
    out.append(f'| {st} | {pid} | `{obl}` | {what[:330]} |')
out.append('')
out.append('### 8.3 Seeded property-breaking changes (sub-agents; confirmed by tools/confirm_seed.sh)\n')
out.append('| seed | what it breaks | caught by |')
out.append('|---|---|---|')
for d in sorted(glob.glob(f'{V}/seeded/*')):
    try:
        m = json.load(open(d + '/meta.json'))
    except Exception:
        continue
    wb = (m.get('what_breaks') or '')[:260].replace('\n', ' ').replace('|', '/')
    det = (m.get('detected_by') or '').replace('|', '/')
    out.append(f"| {os.path.basename(d)} | {wb} | {det if det else '**not detected**'} |")
out.append('')
out.append('### 8.4 Not applicable (MANIFEST.not_applicable)\n')
for n in man['not_applicable']:
    out.append(f"- **{n['property_id']}** — {n['reason']}")
txt = '\n'.join(out) + '\n'
p = f'{V}/DESIGN.md'
s = open(p).read()
b, e = '<!-- STATUS-BEGIN -->', '<!-- STATUS-END -->'
if b in s and e in s:
    s = s[:s.index(b) + len(b)] + '\n' + txt + s[s.index(e):]
    open(p, 'w').write(s)
    print('DESIGN.md status tables regenerated')
else:
    print(txt)
