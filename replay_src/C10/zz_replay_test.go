package stakepool

// Replay of obligation (*StakePool).DistributeRewards/at-call@stake[charge-le-value]#1 (and the same
// line in DistributeRewardsRandN), property C10: ServiceChargeRatio 1.0 and a value above 2^53:
// float64 rounding makes the service charge exceed the value and value - serviceCharge wraps.
import (
	"testing"

	cstate "0chain.net/chaincore/chain/state"
	"0chain.net/smartcontract/dbs/event"
	"0chain.net/smartcontract/stakepool/spenum"
	"github.com/0chain/common/core/currency"
	"github.com/0chain/common/core/logging"
	"go.uber.org/zap"
)

type c10Ctx struct{ cstate.StateContextI }

func (c *c10Ctx) EmitEvent(event.EventType, event.EventTag, string, interface{}, ...cstate.Appender) {}

func TestVerifReplay_C10_service_charge_within_value(t *testing.T) {
	logging.Logger = zap.NewNop()
	value := currency.Coin(1<<53 + 3) // not representable as float64: rounds up to 2^53+4
	sp := NewStakePool()
	sp.Settings.ServiceChargeRatio = 1.0
	sp.Pools["d1"] = &DelegatePool{Balance: 10, DelegateID: "d1"}
	before := sp.Reward + sp.Pools["d1"].Reward
	err := sp.DistributeRewardsRandN(value, "p", spenum.Blobber, 1, 1, spenum.BlockRewardBlobber, &c10Ctx{})
	t.Logf("err=%v provider=%d delegate=%d", err, sp.Reward, sp.Pools["d1"].Reward)
	if err != nil {
		return
	}
	_ = before
	if sp.Reward > value || sp.Pools["d1"].Reward > value || sp.Reward+sp.Pools["d1"].Reward != value {
		t.Fatalf("paid %d: provider credited %d, delegate credited %d", value, sp.Reward, sp.Pools["d1"].Reward)
	}
}
