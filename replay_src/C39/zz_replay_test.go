package minersc

// Replay of obligation (SimpleNodes).reduce/at-call@Perm[tie-range-starts-at-first-tied]#1
// (property C39): among candidates tied at the cut-off stake the choice must depend on the seed only.
// Candidates a, b, c with stake 5 and d with stake 3, two places: every one of a, b, c must be left
// out for some seed.
import (
	"testing"

	"github.com/0chain/common/core/currency"
)

func TestVerifReplay_C39_tie_at_index_zero(t *testing.T) {
	selected := map[string]int{}
	const seeds = 200
	for seed := int64(1); seed <= seeds; seed++ {
		sns := NewSimpleNodes()
		for id, stake := range map[string]currency.Coin{"a": 5, "b": 5, "c": 5, "d": 3} {
			sn := &SimpleNode{}
			sn.ID = id
			sn.TotalStaked = stake
			sns[id] = sn
		}
		if n := sns.reduce(2, 0, seed, nil); n != 2 || len(sns) != 2 {
			t.Fatalf("seed %d: reduce returned %d, %d nodes left", seed, n, len(sns))
		}
		for id := range sns {
			selected[id]++
		}
	}
	if selected["d"] != 0 {
		t.Fatalf("the lower-staked candidate d was selected %d times", selected["d"])
	}
	for _, id := range []string{"a", "b", "c"} {
		if selected[id] == seeds {
			t.Fatalf("candidate %s (tied at the cut-off stake) was selected for every one of %d seeds: %v", id, seeds, selected)
		}
	}
}
