#!/usr/bin/env python3
"""Re-run every archived seeded change (seeded/<id>/patch.diff) against the check(s) that are recorded
to catch it (meta.json detected_by: "C38: ..." / "C39 (not C38): ..."; empty = recorded as not detected),
on scratch worktrees of /repo's HEAD (GOVC_REPO / GOVC_SCRATCH), N workers in parallel.
usage: tryseeds_all.py [-j N] [seed-dir-substring ...]
Prints one line per seed: ok (still caught / still not caught as recorded), CHANGED otherwise."""
import json, os, re, subprocess, sys, shutil, threading, queue, glob
R = '/repo'
args = sys.argv[1:]
jobs = 3
if args and args[0] == '-j':
    jobs = int(args[1]); args = args[2:]
seeds = []
for d in sorted(glob.glob('/verif/seeded/*')):
    if args and not any(a in d for a in args):
        continue
    mp = os.path.join(d, 'meta.json')
    if not os.path.exists(mp):
        continue
    meta = json.load(open(mp))
    patch = os.path.join(d, 'patch_rebased.diff')
    if not os.path.exists(patch):
        patch = os.path.join(d, 'patch.diff')
    det = (meta.get('detected_by') or '').strip()
    m = re.match(r'(C\d\d)', det)
    prop = m.group(1) if m else meta.get('property')
    seeds.append((os.path.basename(d), patch, prop, bool(m)))
q = queue.Queue()
for s in seeds:
    q.put(s)
lock = threading.Lock()
bad = [0]
base = '/tmp/ts'
os.makedirs(base, exist_ok=True)

def worker(i):
    wt, out = f'{base}/w{i}', f'{base}/o{i}'
    subprocess.run(['git', '-C', R, 'worktree', 'remove', '--force', wt], capture_output=True)
    shutil.rmtree(wt, ignore_errors=True); shutil.rmtree(out, ignore_errors=True)
    if subprocess.run(['git', '-C', R, 'worktree', 'add', '--detach', wt, 'HEAD'], capture_output=True).returncode != 0:
        with lock:
            print('cannot create worktree', wt); bad[0] += 1
        return
    os.makedirs(out, exist_ok=True)
    env = dict(os.environ, GOVC_REPO=wt, GOVC_SCRATCH=out)
    try:
        while True:
            try:
                name, patch, prop, expect_caught = q.get_nowait()
            except queue.Empty:
                break
            a = subprocess.run(['git', '-C', wt, 'apply', patch], capture_output=True, text=True)
            if a.returncode != 0:
                with lock:
                    print(f'SKIP {name}: patch does not apply to HEAD ({a.stderr.strip()[:120]})', flush=True)
                subprocess.run(['git', '-C', wt, 'checkout', '--', '.'])
                continue
            try:
                r = subprocess.run(['/verif/bin/govc', 'check', prop], capture_output=True, text=True, cwd='/verif', timeout=1800, env=env)
            finally:
                subprocess.run(['git', '-C', wt, 'checkout', '--', '.'])
                subprocess.run(['git', '-C', wt, 'clean', '-fdq'])
            viol = [l for l in r.stdout.splitlines() if l.startswith('VIOLATION')]
            caught = r.returncode == 1 and bool(viol)
            ok = caught == expect_caught and r.returncode in (0, 1)
            first = ''
            if viol:
                mm = re.search(r'obligation=(\S+)', viol[0])
                first = mm.group(1)[-90:] if mm else ''
            with lock:
                print(('ok      ' if ok else 'CHANGED ') + f'{name} {prop} ' + ('caught ' + first if caught else f'not caught rc={r.returncode}'), flush=True)
                if not ok:
                    bad[0] += 1
    finally:
        subprocess.run(['git', '-C', R, 'worktree', 'remove', '--force', wt], capture_output=True)
        shutil.rmtree(wt, ignore_errors=True); shutil.rmtree(out, ignore_errors=True)

ts = [threading.Thread(target=worker, args=(i,)) for i in range(max(1, min(jobs, len(seeds))))]
for t in ts:
    t.start()
for t in ts:
    t.join()
sys.exit(1 if bad[0] else 0)
