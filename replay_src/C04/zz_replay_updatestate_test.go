package chain

// Replay of obligations (*Chain).updateState/at-call@GetTransfers[sender-debits-bounded-when-applied]
// and at-call@GetSignedTransfers[signed-transfers-verified-when-applied] (property C04): the state
// context is validated before the smart contract runs (when nothing is queued yet) and never after,
// so what the contract queued is applied unchecked.
import (
	"context"
	"net/url"
	"sync"
	"testing"
	"time"

	"0chain.net/chaincore/block"
	cstate "0chain.net/chaincore/chain/state"
	"0chain.net/chaincore/smartcontract"
	"0chain.net/chaincore/state"
	"0chain.net/chaincore/transaction"
	"0chain.net/core/config"
	"0chain.net/core/encryption"
	"github.com/0chain/common/core/currency"
	"github.com/0chain/common/core/logging"
	"github.com/0chain/common/core/statecache"
	"github.com/0chain/common/core/util"
	"go.uber.org/zap"
)

func init() { logging.Logger = zap.NewNop() }

type replaySC struct {
	addr string
	run  func(t *transaction.Transaction, balances cstate.StateContextI) (string, error)
}

func (s *replaySC) Execute(t *transaction.Transaction, _ string, _ []byte, balances cstate.StateContextI) (string, error) {
	return s.run(t, balances)
}
func (s *replaySC) GetHandlerStats(context.Context, url.Values) (interface{}, error) { return nil, nil }
func (s *replaySC) GetExecutionStats() map[string]interface{}                         { return map[string]interface{}{} }
func (s *replaySC) GetName() string                                                   { return "replay" }
func (s *replaySC) GetAddress() string                                                { return s.addr }
func (s *replaySC) GetCostTable(cstate.StateContextI) (map[string]int, error)         { return map[string]int{}, nil }

type c04Env struct {
	c      *Chain
	b      *block.Block
	bState util.MerklePatriciaTrieI
	bc     *statecache.BlockCache
}

func newC04Env(t *testing.T, funded map[string]int64) *c04Env {
	c := &Chain{}
	c.stateMutex = &sync.RWMutex{}
	c.eventMutex = &sync.RWMutex{}
	c.ChainConfig = NewConfigImpl(&ConfigData{IsFeeEnabled: true, SmartContractTimeout: 20 * time.Second})
	config.Configuration().ChainConfig = c.ChainConfig
	mpt := util.NewMerklePatriciaTrie(util.NewMemoryNodeDB(), util.Sequence(10), nil, statecache.NewEmpty())
	for id, bal := range funded {
		s := &state.State{}
		s.Balance = 0
		_ = s.SetTxnHash(encryption.Hash("genesis"))
		s.Balance = currency.Coin(bal)
		if _, err := mpt.Insert(util.Path(id), s); err != nil {
			t.Fatal(err)
		}
	}
	b := &block.Block{}
	b.Round = 10
	b.Hash = encryption.Hash("block-10")
	b.PrevBlock = &block.Block{}
	b.PrevBlock.Round = 9
	b.PrevBlock.Hash = encryption.Hash("block-9")
	return &c04Env{c: c, b: b, bState: mpt,
		bc: statecache.NewBlockCache(statecache.NewStateCache(), statecache.Block{Round: 10, Hash: b.Hash, PrevHash: b.PrevBlock.Hash})}
}

func (e *c04Env) balance(t *testing.T, id string) int64 {
	s := &state.State{}
	err := e.bState.GetNodeValue(util.Path(id), s)
	if err == util.ErrValueNotPresent {
		return 0
	}
	if err != nil {
		t.Fatal(err)
	}
	return int64(s.Balance)
}

func scTxn(sender, sc string, value, fee int64) *transaction.Transaction {
	txn := &transaction.Transaction{}
	txn.ClientID, txn.ToClientID = sender, sc
	txn.TransactionType = transaction.TxnTypeSmartContract
	txn.SmartContractData = &transaction.SmartContractData{FunctionName: "f"}
	txn.TransactionData = `{"name":"f","input":{}}`
	txn.Nonce = 1
	txn.Hash = encryption.Hash("txn:" + sender)
	txn.Value = currency.Coin(value)
	txn.Fee = currency.Coin(fee)
	return txn
}

// the called contract queues a transfer of 90 out of the sender although the transaction carries
// value 10 and fee 5: the sender must not lose more than 15
func TestVerifReplay_C04_updateState_sender_debit_bounded(t *testing.T) {
	sender, sc := encryption.Hash("c04-sender"), encryption.Hash("c04-contract")
	smartcontract.ContractMap[sc] = &replaySC{addr: sc, run: func(tx *transaction.Transaction, balances cstate.StateContextI) (string, error) {
		return "ok", balances.AddTransfer(state.NewTransfer(tx.ClientID, tx.ToClientID, 90))
	}}
	defer delete(smartcontract.ContractMap, sc)
	e := newC04Env(t, map[string]int64{sender: 100})
	_, err := e.c.updateState(context.Background(), e.b, e.bState, scTxn(sender, sc, 10, 5), e.bc)
	if lost := 100 - e.balance(t, sender); lost > 15 {
		t.Fatalf("transaction with value 10 and fee 5 lowered the sender's balance by %d (err=%v)", lost, err)
	}
}

// the called contract queues a signed transfer out of a third account with a bogus signature
func TestVerifReplay_C04_updateState_signed_transfer_verified(t *testing.T) {
	sender, sc, victim, thief := encryption.Hash("c04-sender2"), encryption.Hash("c04-contract2"), encryption.Hash("c04-victim"), encryption.Hash("c04-thief")
	smartcontract.ContractMap[sc] = &replaySC{addr: sc, run: func(tx *transaction.Transaction, balances cstate.StateContextI) (string, error) {
		st := &state.SignedTransfer{Transfer: *state.NewTransfer(victim, thief, 400), SchemeName: "bls0chain", PublicKey: "00", Sig: "00"}
		balances.AddSignedTransfer(st)
		return "ok", nil
	}}
	defer delete(smartcontract.ContractMap, sc)
	e := newC04Env(t, map[string]int64{sender: 100, victim: 500})
	_, err := e.c.updateState(context.Background(), e.b, e.bState, scTxn(sender, sc, 0, 5), e.bc)
	if got := e.balance(t, victim); got != 500 {
		t.Fatalf("a signed transfer with an invalid signature was applied: victim balance 500 -> %d, thief %d (err=%v)", got, e.balance(t, thief), err)
	}
}
