#!/usr/bin/env python3
"""unsat core of an SMT file produced by govc (names every assert)"""
import sys,re,subprocess
src=open(sys.argv[1]).read().split('\n')
out=['(set-option :produce-unsat-cores true)']
n=0
names={}
for l in src:
    if l.startswith('(assert '):
        n+=1
        body=l[len('(assert '):-1]
        out.append(f'(assert (! {body} :named a{n}))')
        names[f'a{n}']=body
    elif l.startswith('(get-model)'):
        out.append('(get-unsat-core)')
    else:
        out.append(l)
open('/tmp/core.smt2','w').write('\n'.join(out))
r=subprocess.run(['z3','-T:60','/tmp/core.smt2'],capture_output=True,text=True).stdout
print(r.split('\n')[0])
for a in re.findall(r'a\d+',r.split('\n',1)[1] if '\n' in r else ''):
    print(a, names[a][:400])
