package main

import (
	"fmt"
	"go/types"
	"regexp"
	"sort"
	"strconv"
	"strings"

	"golang.org/x/tools/go/ssa"
)

// EVal is the value of a contract expression: a typed tuple of leaf terms, possibly with the
// address it lives at.
type EVal struct {
	T       types.Type
	Terms   []string
	Addr    *Addr
	Untyped bool // integer / nil literal without a Go type
	IsNil   bool
	// index variables bound to absolute positions (see quant): value == AbsK - AbsOff + AbsAdd
	AbsK, AbsOff, AbsAdd string
}

type skMode int

const (
	skNone skMode = iota
	skForall
	skExists
)

func (m skMode) flip() skMode {
	switch m {
	case skForall:
		return skExists
	case skExists:
		return skForall
	}
	return skNone
}

type Eval struct {
	vc       *VC
	cur, old Heap
	inOld    bool
	env      map[string]EVal
	resolve  func(name string) (EVal, bool)
	results  [][]string
	resTypes []types.Type
	resNames []string
	override map[ssa.Value][]string
	bound    map[string]EVal
	skolems  []string
	hyps     []string
	pats     []string
	depth    int
	li       *loopInfo

	chainVars, chainRng, chainNames []string
	inChain                         int
	probeName, probeOff             string
	probing                         int
	allowLocals                     int
	skolemSet                       map[string]bool
	pkgPath                         string // package of the contract being evaluated
}

var qNameRe = regexp.MustCompile(`q_[A-Za-z0-9_]*_\d+`)

func (ev *Eval) heap() *Heap {
	if ev.inOld {
		return &ev.old
	}
	return &ev.cur
}

// newEval builds an evaluator whose names are the parameters (and named results) of fn.
func (vc *VC) newEval(fn *ssa.Function, cur, old Heap, li *loopInfo) *Eval {
	ev := &Eval{vc: vc, cur: cur.clone(), old: old.clone(), env: map[string]EVal{}, bound: map[string]EVal{}, li: li, pkgPath: contractPkg(vc.root().ct)}
	for _, p := range fn.Params {
		ev.env[p.Name()] = EVal{T: p.Type(), Terms: vc.val(p)}
	}
	for _, p := range fn.FreeVars {
		// a captured variable: go/ssa passes the address of its cell; the name denotes the cell's content
		if pt, isP := p.Type().Underlying().(*types.Pointer); isP {
			if t := vc.val(p); len(t) == 1 {
				ad := ptrAddr(t[0])
				ev.env[p.Name()] = EVal{T: pt.Elem(), Addr: &ad}
				continue
			}
		}
		ev.env[p.Name()] = EVal{T: p.Type(), Terms: vc.val(p)}
	}
	res := fn.Signature.Results()
	for i := 0; i < res.Len(); i++ {
		ev.resTypes = append(ev.resTypes, res.At(i).Type())
		ev.resNames = append(ev.resNames, res.At(i).Name())
	}
	if li != nil {
		ev.resolve = func(name string) (EVal, bool) { return vc.resolveLocal(ev, name, li) }
	}
	return ev
}

// resolveLocal finds the SSA value a source variable denotes at a loop header.
func (vc *VC) resolveLocal(ev *Eval, name string, li *loopInfo) (EVal, bool) {
	get := func(v ssa.Value) []string {
		if ev.override != nil {
			if t, ok := ev.override[v]; ok {
				return t
			}
		}
		return vc.val(v)
	}
	for _, in := range li.header.Instrs {
		phi, ok := in.(*ssa.Phi)
		if !ok {
			break
		}
		if phi.Comment == name || (name == "$idx" && phi.Comment == "rangeindex") {
			return EVal{T: phi.Type(), Terms: get(phi), Untyped: name == "$idx"}, true
		}
	}
	// enclosing loops' phis
	for _, lo := range vc.loops {
		if lo != li && lo.body[li.header] {
			for _, in := range lo.header.Instrs {
				phi, ok := in.(*ssa.Phi)
				if !ok {
					break
				}
				if phi.Comment == name {
					return EVal{T: phi.Type(), Terms: get(phi)}, true
				}
			}
		}
	}
	// a variable that lives in a heap cell (captured by a closure, or its address taken): the cell
	if a := vc.cellOf(name, func(a *ssa.Alloc) bool { return !li.body[a.Block()] && a.Block().Dominates(li.header) }); a != nil {
		pt := a.Type().Underlying().(*types.Pointer)
		ad := ptrAddr(get(a)[0])
		return ev.localCellValue(pt.Elem(), ad), true
	}
	var best *ssa.DebugRef
	for _, b := range vc.fn.Blocks {
		for _, in := range b.Instrs {
			dr, ok := in.(*ssa.DebugRef)
			if !ok {
				continue
			}
			id, ok := dr.Expr.(interface{ String() string })
			_ = id
			obj := dr.Object()
			if obj == nil || obj.Name() != name {
				continue
			}
			// the value must be available at the header
			if xi, isI := dr.X.(ssa.Instruction); isI {
				if li.body[xi.Block()] && xi.Block() != li.header {
					continue
				}
				if !xi.Block().Dominates(li.header) {
					continue
				}
				if xi.Block() == li.header {
					continue
				}
			}
			if best == nil || dr.Pos() > best.Pos() && !li.body[dr.Block()] {
				best = dr
			}
		}
	}
	if best == nil {
		return EVal{}, false
	}
	if best.IsAddr {
		pt := best.X.Type().Underlying().(*types.Pointer)
		a := ptrAddr(get(best.X)[0])
		return EVal{T: pt.Elem(), Addr: &a}, true
	}
	return EVal{T: best.X.Type(), Terms: get(best.X)}, true
}

// resolveLocalAtBlock finds the SSA value a source variable denotes at the end of block blk:
// the latest reference to a variable of that name whose value dominates blk.
func (vc *VC) resolveLocalAtBlock(ev *Eval, name string, blk *ssa.BasicBlock) (EVal, bool) {
	if a := vc.cellOf(name, func(a *ssa.Alloc) bool { return a.Block() == blk || a.Block().Dominates(blk) }); a != nil {
		if _, have := vc.vals[a]; have {
			pt := a.Type().Underlying().(*types.Pointer)
			ad := ptrAddr(vc.val(a)[0])
			return ev.localCellValue(pt.Elem(), ad), true
		}
	}
	// a variable of the enclosing function captured by this function literal: go/ssa passes the address
	// of the variable's cell as a free variable
	for _, fv := range vc.fn.FreeVars {
		if fv.Name() != name {
			continue
		}
		if pt, isP := fv.Type().Underlying().(*types.Pointer); isP {
			if _, have := vc.vals[fv]; have {
				ad := ptrAddr(vc.val(fv)[0])
				return ev.localCellValue(pt.Elem(), ad), true
			}
		}
	}
	var best *ssa.DebugRef
	for _, b := range vc.fn.Blocks {
		if !(b == blk || b.Dominates(blk)) {
			continue
		}
		for _, in := range b.Instrs {
			if b == blk && vc.atInstr != nil && in == vc.atInstr {
				break // names denote their values just before this instruction (at-call assertions)
			}
			dr, ok := in.(*ssa.DebugRef)
			if !ok {
				continue
			}
			obj := dr.Object()
			if obj == nil || obj.Name() != name {
				continue
			}
			if best == nil || best.Block() == b || best.Block().Dominates(b) {
				best = dr
			}
		}
	}
	if best == nil {
		return EVal{}, false
	}
	if best.IsAddr {
		pt := best.X.Type().Underlying().(*types.Pointer)
		a := ptrAddr(vc.val(best.X)[0])
		return EVal{T: pt.Elem(), Addr: &a}, true
	}
	return EVal{T: best.X.Type(), Terms: vc.val(best.X)}, true
}

// ---------------------------------------------------------------- entry points

func (ev *Eval) boolExpr(e Expr, goal bool) (string, error) {
	m := skExists
	if goal {
		m = skForall
	}
	return ev.formula(e, m)
}

func (ev *Eval) intExpr(e Expr) (string, error) {
	v, err := ev.expr(e)
	if err != nil {
		return "", err
	}
	t := ev.rv(v)
	if len(t) != 1 {
		return "", fmt.Errorf("integer expression expected: %s", e)
	}
	return t[0], nil
}

// rv returns the leaf terms of a value, loading from the context heap if it is an lvalue.
func (ev *Eval) rv(v EVal) []string {
	if v.Terms != nil || v.Addr == nil {
		return v.Terms
	}
	terms := ev.vc.load(*ev.heap(), *v.Addr, v.T)
	// well-typedness facts about the loaded value (only for closed terms)
	closed := true
	onlySkolems := true
	for _, t := range terms {
		if strings.Contains(t, "q_") {
			closed = false
			for _, nm := range qNameRe.FindAllString(t, -1) {
				if !ev.skolemSet[nm] {
					onlySkolems = false
				}
			}
		}
	}
	if !closed && onlySkolems {
		// the term mentions only skolem constants of the obligation being built: its
		// well-typedness facts become hypotheses local to that obligation
		ls := ev.vc.L.Leaves(v.T)
		for i, l := range ls {
			if i < len(terms) {
				ev.hyps = append(ev.hyps, ev.vc.loadFacts(terms[i], l, *ev.heap(), v.Addr.Obj)...)
			}
		}
	}
	if closed {
		// name the loaded leaves: keeps nested accesses (s.rounds[i] ...) small
		ls := ev.vc.L.Leaves(v.T)
		key := ev.vc.root().factGuard + "#" + ev.vc.curR + "#"
		for _, t := range terms {
			key += t + "|"
		}
		if ev.vc.root().ldCache == nil {
			ev.vc.root().ldCache = map[string][]string{}
		}
		if named, ok := ev.vc.root().ldCache[key]; ok {
			return named
		}
		named := make([]string, len(terms))
		for i, t := range terms {
			if i < len(ls) && !isSimpleTerm(t) {
				named[i] = ev.vc.define("ld", ls[i].Sort.SMT(), t)
				if ev.vc.root().ldDefs == nil {
					ev.vc.root().ldDefs = map[string]string{}
				}
				ev.vc.root().ldDefs[named[i]] = t
			} else {
				named[i] = t
			}
		}
		ev.vc.root().ldCache[key] = named
		ev.vc.assumeLoadRanges(named, v.T, *ev.heap(), v.Addr.Obj)
		return named
	}
	return terms
}

func (ev *Eval) formula(e Expr, m skMode) (string, error) {
	switch x := e.(type) {
	case *EBin:
		switch x.Op {
		case "&&", "||":
			a, err := ev.formula(x.X, m)
			if err != nil {
				return "", err
			}
			b, err := ev.formula(x.Y, m)
			if err != nil {
				return "", err
			}
			if x.Op == "&&" {
				return and(a, b), nil
			}
			return or(a, b), nil
		case "==>":
			a, err := ev.formula(x.X, m.flip())
			if err != nil {
				return "", err
			}
			b, err := ev.formula(x.Y, m)
			if err != nil {
				return "", err
			}
			return implies(a, b), nil
		case "<==>":
			a, err := ev.formula(x.X, skNone)
			if err != nil {
				return "", err
			}
			b, err := ev.formula(x.Y, skNone)
			if err != nil {
				return "", err
			}
			return eq(a, b), nil
		}
	case *EUnary:
		if x.Op == "!" {
			a, err := ev.formula(x.X, m.flip())
			if err != nil {
				return "", err
			}
			return not(a), nil
		}
	case *EQuant:
		return ev.quant(x, m)
	case *ECall:
		if sf, ok := ev.vc.CS.Specs[x.Fn]; ok {
			return ev.specCall(sf, x, m)
		}
		if x.Fn == "old" && len(x.Args) == 1 {
			save := ev.inOld
			ev.inOld = true
			r, err := ev.formula(x.Args[0], m)
			ev.inOld = save
			return r, err
		}
	}
	v, err := ev.expr(e)
	if err != nil {
		return "", err
	}
	t := ev.rv(v)
	if len(t) != 1 {
		return "", fmt.Errorf("boolean expected: %s", e)
	}
	return t[0], nil
}

func (ev *Eval) quantUnused(q *EQuant, m skMode) (string, error) {
	ev.vc.root().n++
	name := fmt.Sprintf("q_%s_%d", sanitize(q.Var), ev.vc.root().n)
	sortS := "Int"
	var vt types.Type = types.Typ[types.Int]
	if q.Lo == nil {
		switch q.Type {
		case "string":
			sortS, vt = "Str", types.Typ[types.String]
		case "int", "int64", "":
			vt = types.Typ[types.Int64]
		case "uint64":
			vt = types.Typ[types.Uint64]
		case "bool":
			sortS, vt = "Bool", types.Typ[types.Bool]
		default:
			return "", fmt.Errorf("unsupported quantifier type %q", q.Type)
		}
	}
	saved, had := ev.bound[q.Var]
	ev.bound[q.Var] = EVal{T: vt, Terms: []string{name}, Untyped: q.Lo != nil}
	defer func() {
		if had {
			ev.bound[q.Var] = saved
		} else {
			delete(ev.bound, q.Var)
		}
	}()
	rng := "true"
	if q.Lo != nil {
		lo, err := ev.intExpr(q.Lo)
		if err != nil {
			return "", err
		}
		hi, err := ev.intExpr(q.Hi)
		if err != nil {
			return "", err
		}
		rng = "(and (<= " + lo + " " + name + ") (< " + name + " " + hi + "))"
	} else if lo, hi, ok := intRange(vt); ok && sortS == "Int" {
		rng = "(and (<= " + lo + " " + name + ") (<= " + name + " " + hi + "))"
	}
	skolem := (q.All && m == skForall) || (!q.All && m == skExists)
	savedPats := ev.pats
	ev.pats = nil
	bm := m
	if !skolem {
		bm = skNone
		if q.All && m == skExists || !q.All && m == skForall {
			bm = m // nested same-kind quantifiers keep their mode
		}
	}
	var body string
	var err error
	innerQ, chain := q.Body.(*EQuant)
	if chain && !skolem && innerQ.All == q.All {
		// same-kind nested quantifier: merge into one binder list with a multi-pattern
		ev.chainVars = append(ev.chainVars, "("+name+" "+sortS+")")
		ev.chainRng = append(ev.chainRng, rng)
		ev.chainNames = append(ev.chainNames, name)
		ev.inChain++
		body, err = ev.formula(q.Body, bm)
		ev.inChain--
		ev.pats = savedPats
		return body, err
	}
	body, err = ev.formula(q.Body, bm)
	pats := ev.pats
	ev.pats = savedPats
	if err != nil {
		return "", err
	}
	if !skolem && len(ev.chainVars) > 0 {
		vars := append(append([]string{}, ev.chainVars...), "("+name+" "+sortS+")")
		rngs := append(append([]string{}, ev.chainRng...), rng)
		names := append(append([]string{}, ev.chainNames...), name)
		ev.chainVars, ev.chainRng, ev.chainNames = nil, nil, nil
		// multi-pattern: one term per variable
		var mp []string
		okAll := true
		used := map[string]bool{}
		for _, vn := range names {
			found := ""
			for _, p := range pats {
				if containsIdent(p, vn) {
					found = p
					break
				}
			}
			if found == "" {
				okAll = false
				break
			}
			if !used[found] {
				used[found] = true
				mp = append(mp, found)
			}
		}
		var inner string
		if q.All {
			inner = implies(and(rngs...), body)
		} else {
			inner = and(append(rngs, body)...)
		}
		if okAll {
			inner = "(! " + inner + " :pattern (" + strings.Join(mp, " ") + "))"
		}
		kw := "forall"
		if !q.All {
			kw = "exists"
		}
		return "(" + kw + " (" + strings.Join(vars, " ") + ") " + inner + ")", nil
	}
	if skolem {
		ev.skolems = append(ev.skolems, "(declare-const "+name+" "+sortS+")")
		if q.All {
			return implies(rng, body), nil
		}
		return and(rng, body), nil
	}
	// keep only patterns that mention the bound variable
	var ps []string
	seen := map[string]bool{}
	for _, p := range pats {
		if containsIdent(p, name) && !seen[p] {
			seen[p] = true
			ps = append(ps, p)
		} else if !containsIdent(p, name) {
			ev.pats = append(ev.pats, p)
		}
	}
	var inner string
	if q.All {
		inner = implies(rng, body)
	} else {
		inner = and(rng, body)
	}
	if len(ps) > 0 && len(ps) <= 4 {
		var sb strings.Builder
		sb.WriteString("(! " + inner)
		for _, p := range ps {
			sb.WriteString(" :pattern (" + p + ")")
		}
		sb.WriteString(")")
		inner = sb.String()
	}
	kw := "forall"
	if !q.All {
		kw = "exists"
	}
	return "(" + kw + " ((" + name + " " + sortS + ")) " + inner + ")", nil
}

func containsIdent(s, id string) bool {
	i := 0
	for {
		j := strings.Index(s[i:], id)
		if j < 0 {
			return false
		}
		j += i
		end := j + len(id)
		okL := j == 0 || s[j-1] == ' ' || s[j-1] == '('
		okR := end == len(s) || s[end] == ' ' || s[end] == ')'
		if okL && okR {
			return true
		}
		i = end
	}
}

func (ev *Eval) specCall(sf *SpecFunc, c *ECall, m skMode) (string, error) {
	if len(c.Args) != len(sf.Params) {
		return "", fmt.Errorf("spec %s: %d arguments, want %d", sf.Name, len(c.Args), len(sf.Params))
	}
	if ev.depth > 8 {
		return "", fmt.Errorf("spec %s: recursion too deep", sf.Name)
	}
	saved := map[string]*EVal{}
	var vals []EVal
	for _, a := range c.Args {
		v, err := ev.expr(a)
		if err != nil {
			return "", err
		}
		// arguments are values: fix them in the current context
		if v.Addr != nil && v.Terms == nil {
			if _, isStruct := v.T.Underlying().(*types.Struct); !isStruct {
				v.Terms = ev.rv(v)
			}
		}
		vals = append(vals, v)
	}
	for i, p := range sf.Params {
		if old, ok := ev.bound[p.Name]; ok {
			o := old
			saved[p.Name] = &o
		} else {
			saved[p.Name] = nil
		}
		ev.bound[p.Name] = vals[i]
	}
	ev.depth++
	r, err := ev.formula(sf.Body, m)
	ev.depth--
	for k, v := range saved {
		if v == nil {
			delete(ev.bound, k)
		} else {
			ev.bound[k] = *v
		}
	}
	if err != nil {
		return "", fmt.Errorf("in spec %s: %v", sf.Name, err)
	}
	return r, nil
}

// ---------------------------------------------------------------- expressions

func (ev *Eval) lookupName(n string) (EVal, bool) {
	if v, ok := ev.bound[n]; ok {
		return v, true
	}
	// parameters shadow the result aliases (a parameter may itself be called err)
	if v, ok := ev.env[n]; ok {
		return v, true
	}
	// results
	if n == "result" && len(ev.resTypes) >= 1 && ev.results != nil {
		return EVal{T: ev.resTypes[0], Terms: ev.results[0]}, true
	}
	if strings.HasPrefix(n, "result") && ev.results != nil {
		if i, err := strconv.Atoi(n[6:]); err == nil && i < len(ev.results) {
			return EVal{T: ev.resTypes[i], Terms: ev.results[i]}, true
		}
	}
	if ev.results != nil {
		for i, rn := range ev.resNames {
			if rn == n && rn != "" && rn != "_" {
				return EVal{T: ev.resTypes[i], Terms: ev.results[i]}, true
			}
		}
		if n == "err" {
			k := len(ev.resTypes) - 1
			if k >= 0 && types.TypeString(ev.resTypes[k], nil) == "error" {
				return EVal{T: ev.resTypes[k], Terms: ev.results[k]}, true
			}
		}
	}
	if v, ok := ev.env[n]; ok {
		return v, true
	}
	if ev.resolve != nil {
		if v, ok := ev.resolve(n); ok {
			return v, true
		}
	}
	return EVal{}, false
}

var intT = types.Typ[types.Int]
var boolT = types.Typ[types.Bool]

func ghostVal(sort, term string) EVal {
	switch sort {
	case "Bool":
		return bval(term)
	case "Str":
		return EVal{T: types.Typ[types.String], Terms: []string{term}}
	case "Iface":
		return EVal{T: types.NewInterfaceType(nil, nil), Terms: []string{term}}
	case "Ptr":
		return EVal{T: types.Typ[types.UnsafePointer], Terms: []string{term}}
	}
	return ival(term)
}

func bval(t string) EVal { return EVal{T: boolT, Terms: []string{t}} }
func ival(t string) EVal { return EVal{T: intT, Terms: []string{t}, Untyped: true} }

func (ev *Eval) expr(e Expr) (EVal, error) {
	switch x := e.(type) {
	case *ELit:
		switch x.Kind {
		case "int":
			n := x.Val
			if strings.HasPrefix(n, "0x") {
				u, err := strconv.ParseUint(n[2:], 16, 64)
				if err != nil {
					return EVal{}, err
				}
				n = strconv.FormatUint(u, 10)
			}
			return ival(n), nil
		case "bool":
			return bval(x.Val), nil
		case "str":
			return EVal{T: types.Typ[types.String], Terms: []string{ev.vc.strLit(x.Val)}}, nil
		case "nil":
			return EVal{IsNil: true, Untyped: true}, nil
		}
	case *EIdent:
		switch x.Name {
		case "MAXSUPPLY":
			return ival("4000000000000000000"), nil // config.MaxTokenSupply = 4e18
		case "MaxInt64":
			return ival("9223372036854775807"), nil
		case "MaxUint64":
			return ival("18446744073709551615"), nil
		}
		if v, ok := ev.lookupName(x.Name); ok {
			return v, nil
		}
		if strings.HasPrefix(x.Name, "$") {
			if name, g, ok := ev.vc.ghostHeap(ev.heap(), x.Name); ok {
				if g.Key != "" {
					return EVal{}, fmt.Errorf("ghost %s is a map: index it", x.Name)
				}
				return ghostVal(g.Val, name), nil
			}
		}
		// package-level variable or constant of the function's package
		if v, ok := ev.global("", x.Name); ok {
			return v, nil
		}
		return EVal{}, fmt.Errorf("unknown name %q", x.Name)
	case *ESel:
		if id, ok := x.X.(*EIdent); ok {
			if _, isVar := ev.lookupName(id.Name); !isVar {
				if v, ok := ev.global(id.Name, x.Name); ok {
					return v, nil
				}
			}
		}
		base, err := ev.expr(x.X)
		if err != nil {
			return EVal{}, err
		}
		return ev.selField(base, x.Name)
	case *EIndex:
		// old($ghost)[key]: the ghost map of the old state at a key evaluated in the current state
		if c, ok := x.X.(*ECall); ok && c.Fn == "old" && len(c.Args) == 1 {
			if id, ok := c.Args[0].(*EIdent); ok && strings.HasPrefix(id.Name, "$") {
				name, g, ok := ev.vc.ghostHeap(&ev.old, id.Name)
				if !ok || g.Key == "" {
					return EVal{}, fmt.Errorf("%s is not a ghost map", id.Name)
				}
				k, err := ev.expr(x.I)
				if err != nil {
					return EVal{}, err
				}
				kt := ev.rv(k)
				if len(kt) != 1 {
					return EVal{}, fmt.Errorf("ghost map key must be scalar")
				}
				return ghostVal(g.Val, sel(name, kt[0])), nil
			}
		}
		if id, ok := x.X.(*EIdent); ok && strings.HasPrefix(id.Name, "$") {
			name, g, ok := ev.vc.ghostHeap(ev.heap(), id.Name)
			if !ok || g.Key == "" {
				return EVal{}, fmt.Errorf("%s is not a ghost map", id.Name)
			}
			k, err := ev.expr(x.I)
			if err != nil {
				return EVal{}, err
			}
			kt := ev.rv(k)
			if len(kt) != 1 {
				return EVal{}, fmt.Errorf("ghost map key must be scalar")
			}
			t := sel(name, kt[0])
			ev.pats = append(ev.pats, t)
			return ghostVal(g.Val, t), nil
		}
		base, err := ev.expr(x.X)
		if err != nil {
			return EVal{}, err
		}
		idx, err := ev.expr(x.I)
		if err != nil {
			return EVal{}, err
		}
		return ev.index(base, idx)
	case *EUnary:
		v, err := ev.expr(x.X)
		if err != nil {
			return EVal{}, err
		}
		t := ev.rv(v)
		if len(t) != 1 {
			return EVal{}, fmt.Errorf("scalar expected in %s", e)
		}
		if x.Op == "!" {
			return bval(not(t[0])), nil
		}
		return EVal{T: v.T, Terms: []string{"(- " + t[0] + ")"}, Untyped: v.Untyped}, nil
	case *EBin:
		return ev.binary(x)
	case *ECall:
		return ev.callExpr(x)
	case *EQuant:
		f, err := ev.formula(x, skNone)
		if err != nil {
			return EVal{}, err
		}
		return bval(f), nil
	case *ESum:
		return ev.sumExpr(x)
	case *ECond:
		c, err := ev.formula(x.C, skNone)
		if err != nil {
			return EVal{}, err
		}
		a, err := ev.expr(x.A)
		if err != nil {
			return EVal{}, err
		}
		b, err := ev.expr(x.B)
		if err != nil {
			return EVal{}, err
		}
		at, bt := ev.rv(a), ev.rv(b)
		if len(at) != len(bt) {
			return EVal{}, fmt.Errorf("conditional branches differ in shape")
		}
		out := make([]string, len(at))
		for i := range at {
			out[i] = ite(c, at[i], bt[i])
		}
		return EVal{T: a.T, Terms: out, Untyped: a.Untyped && b.Untyped}, nil
	case *ESlice:
		return EVal{}, fmt.Errorf("slice expressions are not supported in contracts: %s", e)
	}
	return EVal{}, fmt.Errorf("unsupported expression %s", e)
}

// global resolves pkgAlias.Name (or Name in the function's own package) to a package-level
// variable (loaded from the heap) or constant.
func (ev *Eval) global(alias, name string) (EVal, bool) {
	vc := ev.vc
	var pkgs []*ssa.Package
	if alias == "" {
		// the package of the contract being evaluated first (a callee's contract names the constants
		// of the callee's package), then the package of the function under verification
		if ev.pkgPath != "" {
			for _, p := range vc.P.Prog.AllPackages() {
				if p.Pkg.Path() == ev.pkgPath {
					pkgs = append(pkgs, p)
				}
			}
		}
		if vc.fn.Pkg != nil {
			pkgs = append(pkgs, vc.fn.Pkg)
		}
	} else {
		for _, p := range vc.P.Prog.AllPackages() {
			if p.Pkg.Name() == alias {
				pkgs = append(pkgs, p)
			}
		}
	}
	for _, p := range pkgs {
		switch m := p.Members[name].(type) {
		case *ssa.Global:
			a := ptrAddr(vc.val(m)[0])
			return EVal{T: m.Type().Underlying().(*types.Pointer).Elem(), Addr: &a}, true
		case *ssa.NamedConst:
			return EVal{T: m.Type(), Terms: vc.constVal(m.Value), Untyped: isInteger(m.Type())}, true
		}
	}
	return EVal{}, false
}

func findField(t types.Type, name string) (path []int, ft types.Type, ok bool) {
	type item struct {
		t    types.Type
		path []int
	}
	queue := []item{{t, nil}}
	seen := map[types.Type]bool{}
	for len(queue) > 0 {
		var next []item
		for _, it := range queue {
			tt := it.t
			if p, isP := tt.Underlying().(*types.Pointer); isP {
				tt = p.Elem()
			}
			if seen[tt] {
				continue
			}
			seen[tt] = true
			st, isS := tt.Underlying().(*types.Struct)
			if !isS {
				continue
			}
			for i := 0; i < st.NumFields(); i++ {
				f := st.Field(i)
				np := append(append([]int{}, it.path...), i)
				if f.Name() == name {
					return np, f.Type(), true
				}
				if f.Embedded() {
					next = append(next, item{f.Type(), np})
				}
			}
		}
		queue = next
	}
	return nil, nil, false
}

func (ev *Eval) selField(base EVal, name string) (EVal, error) {
	if base.T == nil {
		return EVal{}, fmt.Errorf("selector .%s on untyped value", name)
	}
	path, _, ok := findField(base.T, name)
	if !ok {
		return EVal{}, fmt.Errorf("type %s has no field %q", base.T, name)
	}
	cur := base
	for _, fi := range path {
		if p, isP := cur.T.Underlying().(*types.Pointer); isP {
			t := ev.rv(cur)
			a := ptrAddr(t[0])
			cur = EVal{T: p.Elem(), Addr: &a}
		}
		st := cur.T.Underlying().(*types.Struct)
		off, n := ev.vc.L.FieldOffset(st, fi)
		ft := st.Field(fi).Type()
		if cur.Addr != nil {
			a := cur.Addr.Plus(off)
			cur = EVal{T: ft, Addr: &a}
		} else {
			cur = EVal{T: ft, Terms: cur.Terms[off : off+n]}
		}
	}
	return cur, nil
}

func (ev *Eval) index(base, idx EVal) (EVal, error) {
	it := ev.rv(idx)
	if len(it) != 1 {
		return EVal{}, fmt.Errorf("scalar index expected")
	}
	switch u := base.T.Underlying().(type) {
	case *types.Slice:
		s := ev.rv(base)[0]
		off := "(s_off " + s + ")"
		if ev.probeName != "" && ev.probeOff == "" && containsIdent(it[0], ev.probeName) {
			ev.probeOff = off
		}
		ix := plus(off, it[0])
		if idx.AbsK != "" && idx.AbsOff == off {
			ix = plus(idx.AbsK, idx.AbsAdd)
			if idx.AbsAdd == "" {
				ix = idx.AbsK
			}
		}
		a := Addr{"(s_obj " + s + ")", "(s_slot " + s + ")", ix}
		// pattern candidates: the selects that read this element
		for i, l := range ev.vc.L.Leaves(u.Elem()) {
			ev.pats = append(ev.pats, sel(sel(sel(ev.heap().H[l.Sort], a.Obj), plus(a.Slot, num(int64(i)))), a.Idx))
		}
		return EVal{T: u.Elem(), Addr: &a}, nil
	case *types.Array:
		if base.Addr == nil {
			return EVal{}, fmt.Errorf("indexing an array value")
		}
		a := Addr{base.Addr.Obj, base.Addr.Slot, plus(base.Addr.Idx, it[0])}
		return EVal{T: u.Elem(), Addr: &a}, nil
	case *types.Map:
		m := ev.rv(base)[0]
		vals, _ := ev.vc.mapLookup(ev.heap(), m, u, it[0])
		if kl, ok := ev.vc.mapKeyLeaf(u); ok {
			ev.pats = append(ev.pats, sel(sel(ev.vc.mapDom(ev.heap(), kl), m), it[0]))
			// well-typedness of the looked-up value (references bounded by the allocation counter
			// of the map-heap version when the map already existed then)
			facts := ev.vc.mapValFacts(vals, u, kl, *ev.heap(), m)
			all := strings.Join(vals, " ")
			if !strings.Contains(all, "q_") {
				g := ev.vc.root().factGuard
				if g == "" {
					g = ev.vc.curR
				}
				for _, f := range facts {
					ev.vc.assume(implies(g, f))
				}
			} else {
				only := true
				for _, nm := range qNameRe.FindAllString(all, -1) {
					if !ev.skolemSet[nm] {
						only = false
					}
				}
				if only {
					ev.hyps = append(ev.hyps, facts...)
				}
			}
		}
		return EVal{T: u.Elem(), Terms: vals}, nil
	case *types.Pointer:
		if at, ok := u.Elem().Underlying().(*types.Array); ok {
			pa := ptrAddr(ev.rv(base)[0])
			a := Addr{pa.Obj, pa.Slot, plus(pa.Idx, it[0])}
			return EVal{T: at.Elem(), Addr: &a}, nil
		}
	}
	return EVal{}, fmt.Errorf("cannot index %s", base.T)
}

func (ev *Eval) binary(x *EBin) (EVal, error) {
	switch x.Op {
	case "&&", "||", "==>", "<==>":
		f, err := ev.formula(x, skNone)
		if err != nil {
			return EVal{}, err
		}
		return bval(f), nil
	case "in":
		k, err := ev.expr(x.X)
		if err != nil {
			return EVal{}, err
		}
		m, err := ev.expr(x.Y)
		if err != nil {
			return EVal{}, err
		}
		mt, ok := m.T.Underlying().(*types.Map)
		if !ok {
			return EVal{}, fmt.Errorf("'in' needs a map on the right")
		}
		_, has := ev.vc.mapLookup(ev.heap(), ev.rv(m)[0], mt, ev.rv(k)[0])
		if kl, ok := ev.vc.mapKeyLeaf(mt); ok {
			ev.pats = append(ev.pats, sel(sel(ev.vc.mapDom(ev.heap(), kl), ev.rv(m)[0]), ev.rv(k)[0]))
		}
		return bval(has), nil
	}
	a, err := ev.expr(x.X)
	if err != nil {
		return EVal{}, err
	}
	b, err := ev.expr(x.Y)
	if err != nil {
		return EVal{}, err
	}
	if x.Op == "==" || x.Op == "!=" {
		t, err := ev.equal(a, b)
		if err != nil {
			return EVal{}, fmt.Errorf("%v in %s", err, x)
		}
		if x.Op == "!=" {
			t = not(t)
		}
		return bval(t), nil
	}
	at, bt := ev.rv(a), ev.rv(b)
	if len(at) != 1 || len(bt) != 1 {
		return EVal{}, fmt.Errorf("scalar operands expected in %s", x)
	}
	p, q := at[0], bt[0]
	ty := a.T
	if a.Untyped {
		ty = b.T
	}
	isStr := ty != nil && isString(ty)
	isF := ty != nil && isFloat(ty)
	switch x.Op {
	case "+", "-", "*":
		if isF {
			fn := map[string]string{"+": "f64_add", "-": "f64_sub", "*": "f64_mul"}[x.Op]
			return EVal{T: ty, Terms: []string{"(" + fn + " " + p + " " + q + ")"}}, nil
		}
		if isStr && x.Op == "+" {
			return EVal{T: ty, Terms: []string{"(str_concat " + p + " " + q + ")"}}, nil
		}
		r := EVal{T: intT, Terms: []string{"(" + x.Op + " " + p + " " + q + ")"}, Untyped: true}
		if a.AbsK != "" && b.AbsK == "" && (x.Op == "+" || x.Op == "-") {
			r.AbsK, r.AbsOff = a.AbsK, a.AbsOff
			add := q
			if x.Op == "-" {
				add = "(- " + q + ")"
			}
			if a.AbsAdd != "" {
				add = "(+ " + a.AbsAdd + " " + add + ")"
			}
			r.AbsAdd = add
		} else if b.AbsK != "" && a.AbsK == "" && x.Op == "+" {
			r.AbsK, r.AbsOff = b.AbsK, b.AbsOff
			add := p
			if b.AbsAdd != "" {
				add = "(+ " + b.AbsAdd + " " + add + ")"
			}
			r.AbsAdd = add
		}
		return r, nil
	case "/":
		return EVal{T: intT, Terms: []string{"(tdiv " + p + " " + q + ")"}, Untyped: true}, nil
	case "%":
		return EVal{T: intT, Terms: []string{"(tmod " + p + " " + q + ")"}, Untyped: true}, nil
	case "<", "<=", ">", ">=":
		if isStr {
			switch x.Op {
			case "<":
				return bval("(str_lt " + p + " " + q + ")"), nil
			case ">":
				return bval("(str_lt " + q + " " + p + ")"), nil
			case "<=":
				return bval(or("(str_lt "+p+" "+q+")", eq(p, q))), nil
			default:
				return bval(or("(str_lt "+q+" "+p+")", eq(p, q))), nil
			}
		}
		if isF {
			switch x.Op {
			case "<":
				return bval("(f64_lt " + p + " " + q + ")"), nil
			case ">":
				return bval("(f64_lt " + q + " " + p + ")"), nil
			case "<=":
				return bval("(f64_le " + p + " " + q + ")"), nil
			default:
				return bval("(f64_le " + q + " " + p + ")"), nil
			}
		}
		return bval("(" + x.Op + " " + p + " " + q + ")"), nil
	}
	return EVal{}, fmt.Errorf("unsupported operator %s", x.Op)
}

func (ev *Eval) equal(a, b EVal) (string, error) {
	if a.IsNil && b.IsNil {
		return "true", nil
	}
	if a.IsNil {
		a, b = b, a
	}
	if b.IsNil {
		t := ev.rv(a)
		if len(t) != 1 || a.T == nil {
			return "", fmt.Errorf("cannot compare with nil")
		}
		switch a.T.Underlying().(type) {
		case *types.Pointer:
			return eq("(p_obj "+t[0]+")", "0"), nil
		case *types.Interface:
			return eq(t[0], "niliface"), nil
		case *types.Slice:
			return eq("(s_obj "+t[0]+")", "0"), nil
		case *types.Map, *types.Chan, *types.Signature:
			return eq(t[0], "0"), nil
		}
		return "", fmt.Errorf("cannot compare %s with nil", a.T)
	}
	at, bt := ev.rv(a), ev.rv(b)
	if len(at) != len(bt) {
		return "", fmt.Errorf("operands differ in shape (%d vs %d leaves)", len(at), len(bt))
	}
	// operands of different kinds (a pointer against a slice, ...): an evaluation error of the clause -
	// at a call site this means "the call no longer has the shape the assertion talks about" (a failed
	// obligation), never an ill-sorted query
	if a.T != nil && b.T != nil && !a.Untyped && !b.Untyped {
		la, lb := ev.vc.L.Leaves(a.T), ev.vc.L.Leaves(b.T)
		if len(la) == len(lb) {
			for i := range la {
				if sortSMT[la[i].Sort] != sortSMT[lb[i].Sort] {
					return "", fmt.Errorf("operands of different kinds (%s vs %s)", a.T, b.T)
				}
			}
		}
	}
	// interface values: Go's == (dynamic-value equality), exactly as the code's comparisons are
	// translated, so that a contract clause `err == ErrX` matches the code's `err == ErrX`
	if a.T != nil && b.T != nil && len(at) == 1 {
		_, ai := a.T.Underlying().(*types.Interface)
		_, bi := b.T.Underlying().(*types.Interface)
		if ai && bi {
			return ev.vc.ifaceEq(at[0], bt[0]), nil
		}
	}
	var cs []string
	for i := range at {
		cs = append(cs, eq(at[i], bt[i]))
	}
	return and(cs...), nil
}

func (ev *Eval) callExpr(c *ECall) (EVal, error) {
	arg := func(i int) (EVal, error) {
		if i >= len(c.Args) {
			return EVal{}, fmt.Errorf("%s: missing argument", c.Fn)
		}
		return ev.expr(c.Args[i])
	}
	switch c.Fn {
	case "old":
		save := ev.inOld
		ev.inOld = true
		v, err := arg(0)
		if err == nil && v.Addr != nil && v.Terms == nil {
			v.Terms = ev.rv(v)
			v.Addr = nil
		}
		ev.inOld = save
		return v, err
	case "len", "cap":
		v, err := arg(0)
		if err != nil {
			return EVal{}, err
		}
		t := ev.rv(v)
		switch u := v.T.Underlying().(type) {
		case *types.Slice:
			if c.Fn == "len" {
				return ival("(s_len " + t[0] + ")"), nil
			}
			return ival("(s_cap " + t[0] + ")"), nil
		case *types.Map:
			return ival(sel(ev.vc.mapLen(ev.heap()), t[0])), nil
		case *types.Basic:
			if isString(v.T) {
				return ival("(str_len " + t[0] + ")"), nil
			}
		case *types.Array:
			return ival(num(u.Len())), nil
		}
		return EVal{}, fmt.Errorf("len of %s", v.T)
	case "off":
		v, err := arg(0)
		if err != nil {
			return EVal{}, err
		}
		return ival("(s_off " + ev.rv(v)[0] + ")"), nil
	case "held", "rheld":
		v, err := arg(0)
		if err != nil {
			return EVal{}, err
		}
		a, mt, err := ev.mutexAddr(v)
		if err != nil {
			return EVal{}, err
		}
		if c.Fn == "rheld" {
			a = a.Plus(ev.vc.rwReaderSlot(mt))
		}
		return ival(sel(sel(sel(ev.heap().H[SInt], a.Obj), a.Slot), a.Idx)), nil
	case "fresh":
		v, err := arg(0)
		if err != nil {
			return EVal{}, err
		}
		t := ev.rv(v)
		o := ""
		switch v.T.Underlying().(type) {
		case *types.Pointer:
			o = "(p_obj " + t[0] + ")"
		case *types.Slice:
			o = "(s_obj " + t[0] + ")"
		case *types.Map:
			o = t[0]
		case *types.Interface:
			o = "(p_obj (i_pl " + t[0] + "))"
		default:
			return EVal{}, fmt.Errorf("fresh() of %s", v.T)
		}
		return bval("(> " + o + " " + ev.old.Alloc + ")"), nil
	case "unchanged":
		var cs []string
		for i := range c.Args {
			save := ev.inOld
			ev.inOld = false
			a, err := arg(i)
			if err != nil {
				return EVal{}, err
			}
			at := ev.rv(a)
			ev.inOld = true
			b, err := arg(i)
			ev.inOld = save
			if err != nil {
				return EVal{}, err
			}
			ev.inOld = true
			bt := ev.rv(b)
			ev.inOld = save
			for j := range at {
				cs = append(cs, eq(at[j], bt[j]))
			}
		}
		return bval(and(cs...)), nil
	case "float64", "trunc":
		// float64(n): the conversion of an integer; trunc(f): Go's int(f) conversion of a float
		// (both uninterpreted, the same symbols the translation of the code uses)
		a, err := arg(0)
		if err != nil {
			return EVal{}, err
		}
		t := ev.rv(a)
		if len(t) != 1 {
			return EVal{}, fmt.Errorf("%s() of a composite value", c.Fn)
		}
		if c.Fn == "float64" {
			if a.T != nil && isFloat(a.T) {
				return a, nil
			}
			return EVal{T: types.Typ[types.Float64], Terms: []string{"(f64_of_int " + t[0] + ")"}}, nil
		}
		return ival("(int_of_f64 " + t[0] + ")"), nil
	case "min", "max":
		a, err := arg(0)
		if err != nil {
			return EVal{}, err
		}
		b, err := arg(1)
		if err != nil {
			return EVal{}, err
		}
		p, q := ev.rv(a)[0], ev.rv(b)[0]
		if c.Fn == "min" {
			return ival(ite("(<= "+p+" "+q+")", p, q)), nil
		}
		return ival(ite("(>= "+p+" "+q+")", p, q)), nil
	case "obj":
		// identity of the allocation a pointer / slice / map / interface payload refers to
		v, err := arg(0)
		if err != nil {
			return EVal{}, err
		}
		t := ev.rv(v)
		switch v.T.Underlying().(type) {
		case *types.Pointer:
			return ival("(p_obj " + t[0] + ")"), nil
		case *types.Slice:
			return ival("(s_obj " + t[0] + ")"), nil
		case *types.Map, *types.Chan:
			return ival(t[0]), nil
		case *types.Interface:
			return ival("(p_obj (i_pl " + t[0] + "))"), nil
		}
		return EVal{}, fmt.Errorf("obj() of %s", v.T)
	case "boxstr":
		// boxstr(x): the string an interface value x holds (meaningful when x's dynamic type is a string type)
		a, err := arg(0)
		if err != nil {
			return EVal{}, err
		}
		if _, isI := a.T.Underlying().(*types.Interface); !isI {
			return EVal{}, fmt.Errorf("boxstr() of %s: not an interface value", a.T)
		}
		ev.vc.declareRaw("box_str", "(declare-fun box_str (Iface) Str)")
		return EVal{T: types.Typ[types.String], Terms: []string{"(box_str " + ev.rv(a)[0] + ")"}}, nil
	case "payload":
		// the pointer carried by an interface value
		a, err := arg(0)
		if err != nil {
			return EVal{}, err
		}
		if len(c.Args) == 2 {
			// payload(x, T): the pointer carried by x, viewed as *T (meaningful when x's dynamic type is *T)
			t, err := ev.resolveTypeName(c.Args[1])
			if err != nil {
				return EVal{}, err
			}
			return EVal{T: types.NewPointer(t), Terms: []string{"(i_pl " + ev.rv(a)[0] + ")"}}, nil
		}
		return EVal{T: types.Typ[types.UnsafePointer], Terms: []string{"(i_pl " + ev.rv(a)[0] + ")"}}, nil
	case "asptr":
		// asptr(p, T): the pointer p (e.g. the result of an uninterpreted function) viewed as *T
		a, err := arg(0)
		if err != nil {
			return EVal{}, err
		}
		if len(c.Args) != 2 {
			return EVal{}, fmt.Errorf("asptr(p, T)")
		}
		t, err := ev.resolveTypeName(c.Args[1])
		if err != nil {
			return EVal{}, err
		}
		return EVal{T: types.NewPointer(t), Terms: ev.rv(a)}, nil
	case "isnil":
		a, err := arg(0)
		if err != nil {
			return EVal{}, err
		}
		t, err := ev.equal(a, EVal{IsNil: true})
		return bval(t), err
	case "typeis":
		// typeis(x, "pkg.Type") : dynamic type of interface value
		a, err := arg(0)
		if err != nil {
			return EVal{}, err
		}
		lit, ok := c.Args[1].(*ELit)
		if !ok {
			return EVal{}, fmt.Errorf("typeis needs a string literal")
		}
		id, ok := ev.vc.root().typeIDs[lit.Val]
		if !ok {
			ev.vc.root().typeIDs[lit.Val] = len(ev.vc.root().typeIDs) + 1
			id = ev.vc.root().typeIDs[lit.Val]
		}
		return bval(eq("(i_tid "+ev.rv(a)[0]+")", num(int64(id)))), nil
	}
	if sf, ok := ev.vc.CS.Specs[c.Fn]; ok {
		if sf.Ret == "bool" {
			f, err := ev.specCall(sf, c, skNone)
			if err != nil {
				return EVal{}, err
			}
			return bval(f), nil
		}
		return ev.specValue(sf, c)
	}
	if uf, ok := ev.vc.CS.UFs[c.Fn]; ok {
		var args []string
		for i := range c.Args {
			a, err := arg(i)
			if err != nil {
				return EVal{}, err
			}
			args = append(args, ev.rv(a)...)
		}
		ev.vc.declareRaw("uf:"+uf.Name, uf.Decl)
		t := app(uf.Name, args...)
		switch uf.Ret {
		case "Bool":
			return bval(t), nil
		case "Str":
			return EVal{T: types.Typ[types.String], Terms: []string{t}}, nil
		case "Iface":
			return EVal{T: types.NewInterfaceType(nil, nil), Terms: []string{t}}, nil
		case "Ptr":
			return EVal{T: types.Typ[types.UnsafePointer], Terms: []string{t}}, nil
		case "F64":
			return EVal{T: types.Typ[types.Float64], Terms: []string{t}}, nil
		}
		return ival(t), nil
	}
	return EVal{}, fmt.Errorf("unknown function %q in contract", c.Fn)
}

func (ev *Eval) specValue(sf *SpecFunc, c *ECall) (EVal, error) {
	if len(c.Args) != len(sf.Params) {
		return EVal{}, fmt.Errorf("spec %s: arity", sf.Name)
	}
	saved := map[string]*EVal{}
	var vals []EVal
	for _, a := range c.Args {
		v, err := ev.expr(a)
		if err != nil {
			return EVal{}, err
		}
		vals = append(vals, v)
	}
	for i, p := range sf.Params {
		if old, ok := ev.bound[p.Name]; ok {
			o := old
			saved[p.Name] = &o
		} else {
			saved[p.Name] = nil
		}
		ev.bound[p.Name] = vals[i]
	}
	ev.depth++
	r, err := ev.expr(sf.Body)
	if err == nil && r.Addr != nil && r.Terms == nil {
		r.Terms = ev.rv(r)
	}
	ev.depth--
	for k, v := range saved {
		if v == nil {
			delete(ev.bound, k)
		} else {
			ev.bound[k] = *v
		}
	}
	return r, err
}

// mutexAddr: the address of a mutex denoted by a value of type sync.(RW)Mutex (addressable) or
// a pointer to one.
func (ev *Eval) mutexAddr(v EVal) (Addr, types.Type, error) {
	if p, ok := v.T.Underlying().(*types.Pointer); ok {
		return ptrAddr(ev.rv(v)[0]), p.Elem(), nil
	}
	if v.Addr == nil {
		return Addr{}, nil, fmt.Errorf("mutex expression is not addressable")
	}
	return *v.Addr, v.T, nil
}

// lvalue evaluates an expression to its address.
func (ev *Eval) lvalue(e Expr) (Addr, types.Type, error) {
	v, err := ev.expr(e)
	if err != nil {
		return Addr{}, nil, err
	}
	if v.Addr == nil {
		// a pointer value denotes the object it points to
		if p, ok := v.T.Underlying().(*types.Pointer); ok {
			return ptrAddr(ev.rv(v)[0]), p.Elem(), nil
		}
		return Addr{}, nil, fmt.Errorf("%s is not addressable", e)
	}
	return *v.Addr, v.T, nil
}

type modLoc struct {
	a      Addr
	n      int
	allIdx bool
	allObj bool
	sorts  []Sort
	isMap  bool
	mapRef string
	ghost   string
	allMaps bool
	anyDyn  int // any(T).f: every object whose dyntype is anyDyn, slots a.Slot .. a.Slot+n-1
}

// resolveTypeName: `T` (package of the function under contract) or `pkg.T`.
func (ev *Eval) resolveTypeName(e Expr) (types.Type, error) {
	vc := ev.vc
	look := func(p *types.Package, name string) types.Type {
		if p == nil {
			return nil
		}
		if tn, ok := p.Scope().Lookup(name).(*types.TypeName); ok {
			return tn.Type()
		}
		return nil
	}
	switch x := e.(type) {
	case *EIdent:
		// the package the contract was written in
		if ev.pkgPath != "" {
			for _, p := range vc.P.Prog.AllPackages() {
				if p.Pkg.Path() == ev.pkgPath {
					if t := look(p.Pkg, x.Name); t != nil {
						return t, nil
					}
				}
			}
		}
		fn := vc.root().fn
		if fn.Pkg != nil && ev.pkgPath == "" {
			if t := look(fn.Pkg.Pkg, x.Name); t != nil {
				return t, nil
			}
		}
		// callee contracts are written in the callee's package: search all packages for a unique match
		var found types.Type
		for _, p := range vc.P.Prog.AllPackages() {
			if t := look(p.Pkg, x.Name); t != nil {
				if _, isS := t.Underlying().(*types.Struct); isS && strings.HasPrefix(p.Pkg.Path(), "0chain.net/") {
					if found != nil && !types.Identical(found, t) {
						return nil, fmt.Errorf("type name %s is ambiguous: qualify it", x.Name)
					}
					found = t
				}
			}
		}
		if found != nil {
			return found, nil
		}
	case *ESel:
		if id, ok := x.X.(*EIdent); ok {
			// several packages can share a name (block: 0chain.net/chaincore/block, gosdk/core/block):
			// this module's packages first, in a fixed order
			var cands []*ssa.Package
			for _, p := range vc.P.Prog.AllPackages() {
				if p.Pkg.Name() == id.Name {
					cands = append(cands, p)
				}
			}
			sort.Slice(cands, func(i, j int) bool {
				pi, pj := strings.HasPrefix(cands[i].Pkg.Path(), "0chain.net/"), strings.HasPrefix(cands[j].Pkg.Path(), "0chain.net/")
				if pi != pj {
					return pi
				}
				return cands[i].Pkg.Path() < cands[j].Pkg.Path()
			})
			for _, p := range cands {
				if t := look(p.Pkg, x.Name); t != nil {
					return t, nil
				}
			}
		}
	}
	return nil, fmt.Errorf("unknown type %s", e)
}

// modLoc interprets a modifies entry:  x.f   x.f[*]   x.*   *p   x.m[*] (map contents)
func (ev *Eval) modLoc(e Expr) ([]modLoc, error) {
	if id, ok := e.(*EIdent); ok {
		if strings.HasPrefix(id.Name, "$") {
			if _, ok := ev.vc.CS.Ghosts[id.Name]; !ok {
				return nil, fmt.Errorf("unknown ghost %s", id.Name)
			}
			return []modLoc{{ghost: id.Name}}, nil
		}
		if id.Name == "maps" {
			return []modLoc{{allMaps: true}}, nil
		}
	}
	// any(T).f : field f of every object of named struct type T
	if s, ok := e.(*ESel); ok {
		if c, isC := s.X.(*ECall); isC && c.Fn == "any" && len(c.Args) == 1 {
			T, err := ev.resolveTypeName(c.Args[0])
			if err != nil {
				return nil, err
			}
			id, isBase := ev.vc.baseType(T)
			if !isBase {
				return nil, fmt.Errorf("any(%s): not a named struct type that is only used through pointers", T)
			}
			path, ft, okf := findField(T, s.Name)
			if !okf || len(path) != 1 {
				return nil, fmt.Errorf("any(%s).%s: no such direct field", T, s.Name)
			}
			off, _ := ev.vc.L.FieldOffset(T.Underlying().(*types.Struct), path[0])
			var so []Sort
			for _, l := range ev.vc.L.Leaves(ft) {
				so = append(so, l.Sort)
			}
			return []modLoc{{anyDyn: id, a: Addr{"0", num(int64(off)), "0"}, n: len(so), sorts: so}}, nil
		}
	}
	if s, ok := e.(*ESel); ok && s.Name == "$all" {
		v, err := ev.expr(s.X)
		if err != nil {
			return nil, err
		}
		if _, isP := v.T.Underlying().(*types.Pointer); isP {
			return []modLoc{{a: ptrAddr(ev.rv(v)[0]), allObj: true}}, nil
		}
		if b, isB := v.T.Underlying().(*types.Basic); isB && b.Kind() == types.UnsafePointer {
			return []modLoc{{a: ptrAddr(ev.rv(v)[0]), allObj: true}}, nil
		}
		if v.Addr == nil {
			return nil, fmt.Errorf("$all of a non-addressable value")
		}
		return []modLoc{{a: *v.Addr, allObj: true}}, nil
	}
	if ix, ok := e.(*EIndex); ok {
		if id, ok := ix.I.(*EIdent); ok && id.Name == "*" {
			base, err := ev.expr(ix.X)
			if err != nil {
				return nil, err
			}
			switch u := base.T.Underlying().(type) {
			case *types.Slice:
				s := ev.rv(base)[0]
				ls := ev.vc.L.Leaves(u.Elem())
				var so []Sort
				for _, l := range ls {
					so = append(so, l.Sort)
				}
				return []modLoc{{a: Addr{"(s_obj " + s + ")", "(s_slot " + s + ")", "0"}, n: len(ls), allIdx: true, sorts: so}}, nil
			case *types.Map:
				return []modLoc{{isMap: true, mapRef: ev.rv(base)[0]}}, nil
			}
			return nil, fmt.Errorf("[*] on %s", base.T)
		}
	}
	a, t, err := ev.lvalue(e)
	if err != nil {
		return nil, err
	}
	var so []Sort
	for _, l := range ev.vc.L.Leaves(t) {
		so = append(so, l.Sort)
	}
	return []modLoc{{a: a, n: len(so), sorts: so}}, nil
}

// cellOf: the unique heap cell (escaping Alloc) of the local variable `name` in the function being
// translated that satisfies ok, or nil. Variables captured by closures live in such cells.
// localCellValue: the value a local variable that lives in a heap cell holds NOW (in the state the
// clause is evaluated in). A local is not part of the function's entry state, so inside old(...) its
// name still denotes its current value - only what is reached through it is read from the old heap.
func (ev *Eval) localCellValue(t types.Type, ad Addr) EVal {
	save := ev.inOld
	ev.inOld = false
	terms := ev.rv(EVal{T: t, Addr: &ad})
	ev.inOld = save
	return EVal{T: t, Terms: terms}
}

func (vc *VC) cellOf(name string, ok func(*ssa.Alloc) bool) *ssa.Alloc {
	var found *ssa.Alloc
	for _, b := range vc.fn.Blocks {
		for _, in := range b.Instrs {
			a, isA := in.(*ssa.Alloc)
			if !isA || !a.Heap || a.Comment != name || !ok(a) {
				continue
			}
			if found != nil {
				return nil // shadowed / redeclared: ambiguous
			}
			found = a
		}
	}
	return found
}
