#!/usr/bin/env python3
"""archive_seed.py <PROP> <variant a|b> <patchfile> <confirm-json> <detected-by or ''> <files...>
Copies a confirmed seeded change into /verif/seeded/<PROP>_<variant>/ with meta.json."""
import sys, os, json, shutil
prop, var, patch, confirm, detected = sys.argv[1:6]
files = sys.argv[6:]
d = f'/verif/seeded/{prop}_{var}'
os.makedirs(d, exist_ok=True)
shutil.copy(patch, f'{d}/patch.diff')
for f in files:
    shutil.copy(f, d)
seed_meta = {}
mp = os.path.join(os.path.dirname(patch), 'meta.json')
if os.path.exists(mp):
    try: seed_meta = json.load(open(mp))
    except Exception: seed_meta = {}
if var == 'b' and isinstance(seed_meta.get('alternative'), dict):
    sm = seed_meta['alternative']
else:
    sm = seed_meta
meta = {
    'property': prop,
    'variant': var,
    'base_commit': os.environ.get('SEED_BASE', '/repo HEAD with the zz_verif_contracts.go files removed (tools/mkwt.sh); patch.diff applies to /repo HEAD'),
    'what_breaks': sm.get('what_breaks', seed_meta.get('what_breaks', '')),
    'needs_to_manifest': sm.get('needs_to_manifest', seed_meta.get('needs_to_manifest', '')),
    'files_changed': sm.get('files_changed', seed_meta.get('files_changed', [])),
    'confirmed_by_me': json.loads(confirm),
    'confirm_cmd': 'tools/confirm_seed.sh <scratch worktree> patch.diff <demo script>: demo on clean tree (exit 0), go build ./... with the grocksdb overlay, the 11 pinned packages go test, demo with the change (exit != 0)',
    'detected_by': detected,
    'seeder_meta': seed_meta,
}
json.dump(meta, open(f'{d}/meta.json', 'w'), indent=1)
print('archived', d)
