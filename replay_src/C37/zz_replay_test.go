package round

// Replay of obligation (*Round).Restart/lock-balance#1 (property C37): solver model phase >= Share.
import "testing"

func TestVerifReplay_C37_Restart_releases_mutex(t *testing.T) {
	r := &Round{}
	r.phase = Share
	if err := r.Restart(); err == nil {
		t.Fatal("restart of a round in phase Share must be rejected")
	}
	if !r.mutex.TryLock() {
		t.Fatal("rejected Restart returned with the round mutex still held: every later round operation blocks")
	}
	r.mutex.Unlock()
}
