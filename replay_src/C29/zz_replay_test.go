package block

// Replay of obligation (*Block).getHashData/binds[b.ClientStateHash] (property C29): two blocks
// that differ only in the resulting client state hash have the same hash data, hence the same
// block hash and the same valid generator signature.
import "testing"

func replayBlock() *Block {
	b := &Block{}
	b.MinerID = "m1"
	b.PrevHash = "p1"
	b.CreationDate = 1700000000
	b.Round = 42
	b.RoundRandomSeed = 7
	b.StateChangesCount = 3
	b.ClientStateHash = []byte{1, 2, 3, 4}
	return b
}

func TestVerifReplay_C29_state_hash_not_bound(t *testing.T) {
	a, b := replayBlock(), replayBlock()
	b.ClientStateHash = []byte{9, 9, 9, 9}
	if a.ComputeHash() == b.ComputeHash() {
		t.Fatalf("blocks with client state hash %x and %x have the same hash %s", a.ClientStateHash, b.ClientStateHash, a.ComputeHash())
	}
}
