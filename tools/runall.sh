#!/bin/bash
# usage: runall.sh [PROP ...]  -- run the quick check of every claimed property (or the given ones); summary lines only
cd /verif
props="$@"
[ -z "$props" ] && props=$(jq -r '.checks[].property_id' MANIFEST.json)
for p in $props; do
  out=$(./bin/govc check $p --tier quick 2>&1); rc=$?
  echo "$out" | grep -E "^(VIOLATION|KNOWN-FINDING|TOOL)" | cut -c1-300
  echo "$out" | grep -E "^property " | sed "s/$/ rc=$rc/"
done
