#!/bin/bash
# usage: confirm_seed.sh <worktree> <patchfile> <demo_script> [demo args...]
# Confirms a seeded change in a scratch worktree: demo passes on clean tree, module builds and pinned
# tests pass with the change, demo fails with the change. Prints a JSON summary.
wt=$1; patch=$2; demo=$3; shift 3
export GOPROXY=off GOSUMDB=off GOTOOLCHAIN=local GOFLAGS=
cd $wt && git checkout -q -- . 
bash $demo $wt "$@" >/tmp/cs_clean_$$.log 2>&1; clean=$?
git apply $patch || { echo "{\"error\":\"patch does not apply\"}"; exit 1; }
(cd code/go/0chain.net && go build -overlay /tmp/buildshim/overlay.json ./... >/tmp/cs_build_$$.log 2>&1); build=$?
(cd code/go/0chain.net && go test -vet=off -count=1 ./chaincore/client/... ./chaincore/node/... ./conductor/conductrpc/stats/... ./core/cache/... ./core/config/... ./core/encryption/... ./core/sortedmap/... ./core/util/entitywrapper/... ./core/util/orderbuffer/... ./core/viper/... ./sharder/blockdb/... >/tmp/cs_test_$$.log 2>&1); tests=$?
bash $demo $wt "$@" >/tmp/cs_seeded_$$.log 2>&1; seeded=$?
git checkout -q -- .
echo "{\"demo_exit_clean\":$clean,\"build_exit\":$build,\"pinned_tests_exit\":$tests,\"demo_exit_with_change\":$seeded}"
rm -f /tmp/cs_*_$$.log
