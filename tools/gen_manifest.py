#!/usr/bin/env python3
"""Generates /verif/MANIFEST.json from /verif/contracts/claims.json (per-property claim texts)."""
import json, subprocess, os
V = '/verif'
claims = json.load(open(f'{V}/contracts/claims.json'))
props = [json.loads(l) for l in open(f'{V}/properties.jsonl')]
hooks_commits = []
try:
    out = subprocess.check_output(['git', '-C', '/repo', 'log', '--format=%H %s'], text=True)
    for l in out.splitlines():
        h, s = l.split(' ', 1)
        if s.startswith('verif:'):
            hooks_commits.append(h)
            continue
        if s.startswith('fix:'):
            continue
        # a commit (e.g. the driver's end-of-round snapshot) that touches nothing but contract files
        files = subprocess.check_output(['git', '-C', '/repo', 'show', '--name-only', '--format=', h], text=True).split()
        if files and all(f.endswith('zz_verif_contracts.go') for f in files):
            hooks_commits.append(h)
except Exception:
    pass
checks = []
na = []
for p in props:
    pid = p['id']
    c = claims.get(pid)
    if c and c.get('claim'):
        checks.append({
            'property_id': pid,
            'quick_cmd': f'./bin/govc check {pid} --tier quick',
            'thorough_cmd': f'./bin/govc check {pid} --tier thorough',
            'evidence_file': f'/verif/evidence/{pid}.json',
            'replay_cmd_template': './bin/govc replay {path}',
            'engine': 'govc',
            'level_claimed': {'category': 'proof', 'text': c['text'], 'design_ref': c.get('design_ref', 'DESIGN.md §4 ' + pid)},
            'level_note': c['note'],
            'technique': c.get('technique', 'contract-based deductive verification: weakest-precondition VCs generated from go/ssa of the real functions, discharged by z3/cvc5'),
        })
    else:
        na.append({'property_id': pid, 'reason': (c or {}).get('reason', 'no contract within reach of the SSA-to-SMT verifier decides this property yet (see DESIGN.md §4/§5)')})
m = {
    'version': 1,
    'setup_cmd': 'bash /verif/setup.sh',
    'hooks': {
        'guard': 'verif',
        'enable': 'go build -tags verif (adds only comment-only zz_verif_contracts.go files holding the //@ contracts)',
        'baseline_off_cmd': json.load(open('/root/.vp/BASELINE.json'))['cmd'],
        'source_commits': hooks_commits,
        'add_only': True,
    },
    'engines': [{'name': 'govc', 'path': '/verif/govc', 'serves_properties': [c['property_id'] for c in checks],
                 'kind_free_text': 'contract-based deductive verifier for Go written for this task: contracts as //@ comments in build-tagged files in /repo, verification conditions generated from go/ssa (passive form, loops cut at invariants, calls replaced by callee contracts), discharged by a z3 4.8 / z3 5.1 / cvc5 portfolio; counterexamples replayed on the real code via go test -overlay'}],
    'checks': checks,
    'not_applicable': na,
    'notes': 'See DESIGN.md. Every claimed check is level proof: obligations == discharged on the unchanged tree; bounded stand-ins, where present, are listed separately in the evidence and never counted.',
}
json.dump(m, open(f'{V}/MANIFEST.json', 'w'), indent=1)
print(len(checks), 'checks,', len(na), 'not applicable')
