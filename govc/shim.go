package main

// Build shim: grocksdb v1.8.1 (a dependency of github.com/0chain/common) references C symbols
// that the installed RocksDB does not have, so nothing above it type-checks. We generate a
// `go build -overlay` file that replaces the affected files of the module-cache copy with
// copies from which every top-level declaration mentioning a missing C symbol has been cut.
// Nothing in /repo changes.

import (
	"bytes"
	"encoding/json"
	"fmt"
	"go/ast"
	goparser "go/parser"
	"go/printer"
	"go/token"
	"os"
	"path/filepath"
	"regexp"
	"sort"
	"strings"
)

var cSymRe = regexp.MustCompile(`C\.(rocksdb_[A-Za-z0-9_]+)`)

func findGrocksdb() (string, error) {
	cands, _ := filepath.Glob(filepath.Join(os.Getenv("HOME"), "go/pkg/mod/github.com/linx!gnu/grocksdb@*"))
	if gm := os.Getenv("GOMODCACHE"); gm != "" {
		c2, _ := filepath.Glob(filepath.Join(gm, "github.com/linx!gnu/grocksdb@*"))
		cands = append(cands, c2...)
	}
	for _, c := range cands {
		if strings.HasSuffix(c, "@v1.8.1") {
			return c, nil
		}
	}
	if len(cands) > 0 {
		return cands[0], nil
	}
	return "", fmt.Errorf("grocksdb not found in module cache")
}

// GenShim writes the overlay json to outDir/overlay.json and returns its path.
func GenShim(outDir string) (string, error) {
	dir, err := findGrocksdb()
	if err != nil {
		return "", err
	}
	if err := os.MkdirAll(outDir, 0o755); err != nil {
		return "", err
	}
	var hdr []byte
	for _, h := range []string{"/usr/include/rocksdb/c.h", filepath.Join(dir, "grocksdb.h"), filepath.Join(dir, "gorocksdb.h")} {
		b, err := os.ReadFile(h)
		if err == nil {
			hdr = append(hdr, b...)
		}
	}
	if len(hdr) == 0 {
		return "", fmt.Errorf("no rocksdb headers found")
	}
	// also .c files of the module define helper symbols
	cfiles, _ := filepath.Glob(filepath.Join(dir, "*.c"))
	for _, c := range cfiles {
		b, _ := os.ReadFile(c)
		hdr = append(hdr, b...)
	}
	have := map[string]bool{}
	for _, m := range regexp.MustCompile(`\b(rocksdb_[A-Za-z0-9_]+)\b`).FindAllSubmatch(hdr, -1) {
		have[string(m[1])] = true
	}
	files, _ := filepath.Glob(filepath.Join(dir, "*.go"))
	overlay := map[string]string{}
	var missingAll []string
	for _, f := range files {
		if strings.HasSuffix(f, "_test.go") {
			continue
		}
		src, err := os.ReadFile(f)
		if err != nil {
			return "", err
		}
		missing := map[string]bool{}
		for _, m := range cSymRe.FindAllSubmatch(src, -1) {
			if !have[string(m[1])] {
				missing[string(m[1])] = true
			}
		}
		if len(missing) == 0 {
			continue
		}
		for m := range missing {
			missingAll = append(missingAll, m)
		}
		fset := token.NewFileSet()
		af, err := goparser.ParseFile(fset, f, src, goparser.ParseComments)
		if err != nil {
			return "", err
		}
		var kept []ast.Decl
		for _, d := range af.Decls {
			drop := false
			ast.Inspect(d, func(n ast.Node) bool {
				if se, ok := n.(*ast.SelectorExpr); ok {
					if id, ok := se.X.(*ast.Ident); ok && id.Name == "C" && missing[se.Sel.Name] {
						drop = true
					}
				}
				return !drop
			})
			if !drop {
				kept = append(kept, d)
			}
		}
		af.Decls = kept
		// drop comments attached to removed decls: simplest is to keep only the cgo preamble + doc
		var keepC []*ast.CommentGroup
		for _, cg := range af.Comments {
			if cg.End() < af.Name.End()+2000 && cg.Pos() < firstDeclPos(af) {
				keepC = append(keepC, cg)
			}
		}
		af.Comments = keepC
		pruneImports(af)
		var buf bytes.Buffer
		if err := printer.Fprint(&buf, fset, af); err != nil {
			return "", err
		}
		out := filepath.Join(outDir, "grocksdb_"+filepath.Base(f))
		if err := os.WriteFile(out, buf.Bytes(), 0o644); err != nil {
			return "", err
		}
		overlay[f] = out
	}
	sort.Strings(missingAll)
	ov := map[string]any{"Replace": overlay}
	b, _ := json.MarshalIndent(ov, "", " ")
	p := filepath.Join(outDir, "overlay.json")
	if err := os.WriteFile(p, b, 0o644); err != nil {
		return "", err
	}
	_ = os.WriteFile(filepath.Join(outDir, "missing_syms.txt"), []byte(strings.Join(uniq(missingAll), "\n")+"\n"), 0o644)
	return p, nil
}

func uniq(s []string) []string {
	var o []string
	for i, x := range s {
		if i == 0 || x != s[i-1] {
			o = append(o, x)
		}
	}
	return o
}

func firstDeclPos(f *ast.File) token.Pos {
	for _, d := range f.Decls {
		if gd, ok := d.(*ast.GenDecl); ok && gd.Tok == token.IMPORT {
			continue
		}
		return d.Pos()
	}
	return f.End()
}

func pruneImports(f *ast.File) {
	used := map[string]bool{}
	ast.Inspect(f, func(n ast.Node) bool {
		if se, ok := n.(*ast.SelectorExpr); ok {
			if id, ok := se.X.(*ast.Ident); ok {
				used[id.Name] = true
			}
		}
		return true
	})
	for _, d := range f.Decls {
		gd, ok := d.(*ast.GenDecl)
		if !ok || gd.Tok != token.IMPORT {
			continue
		}
		var specs []ast.Spec
		for _, s := range gd.Specs {
			is := s.(*ast.ImportSpec)
			path := strings.Trim(is.Path.Value, `"`)
			name := filepath.Base(path)
			if is.Name != nil {
				name = is.Name.Name
			}
			if path == "C" || name == "_" || used[name] {
				specs = append(specs, s)
			}
		}
		gd.Specs = specs
	}
}
