package minersc

// Replay for obligation
//   (*MinerSmartContract).reduceShardersList/post[keeps-a-previous-sharder] (and its no-panic obligation)
// (C38: "the produced magic block keeps at least one miner and sharder from the previous set").
//
// reduceShardersList selects the sharders of the next magic block from the keep list; when the
// selection lost every sharder of the previous set it is meant to add the best-ranked previous
// sharder back. It looks for that sharder in the REDUCED list - which by the very condition of the
// branch contains none - so the branch can only panic("must not happen"). The keep list below has a
// previous-set sharder (what moveToShareOrPublish demands); the limit and the stakes make the
// selection drop it.
//
// Uses the state stub of zz_replay_test.go (same directory, same overlay).

import (
	"fmt"
	"testing"

	"0chain.net/chaincore/block"
	"0chain.net/chaincore/node"
	"github.com/0chain/common/core/currency"
	"github.com/0chain/common/core/logging"
	"go.uber.org/zap"
)

type c38StateLFMB struct {
	*c38State
	lfmb *block.Block
}

func (s *c38StateLFMB) GetLastestFinalizedMagicBlock() *block.Block { return s.lfmb }

func TestVerifReplay_C38_keeps_previous_sharder(t *testing.T) {
	logging.Logger = zap.NewNop()

	// previous magic block: its only sharder is "old"
	pmb := block.NewMagicBlock()
	pmb.Miners = node.NewPool(node.NodeTypeMiner)
	pmb.Sharders = node.NewPool(node.NodeTypeSharder)
	pmb.Sharders.NodesMap["old"] = &node.Node{}
	lfmb := &block.Block{}
	lfmb.MagicBlock = pmb
	lfmb.RoundRandomSeed = 7
	st := &c38StateLFMB{c38State: newC38State(100), lfmb: lfmb}

	mk := func(id string, stake int64) *MinerNode {
		mn := NewMinerNode()
		mn.ID = id
		mn.TotalStaked = currency.Coin(stake) // reduce orders candidates by SimpleNode.TotalStaked
		return mn
	}
	all := &MinerNodes{Nodes: []*MinerNode{mk("old", 1), mk("new1", 10), mk("new2", 9)}}
	keep := &MinerNodes{Nodes: []*MinerNode{mk("old", 1), mk("new1", 10), mk("new2", 9)}}
	// one place, no quota for previous members: the previous sharder has the lowest stake and is cut
	gn := &GlobalNode{MinS: 1, MaxS: 1, XPercent: 0}
	if !gn.hasPrevShader(keep, st) {
		t.Fatalf("setup: the keep list must contain a previous-set sharder")
	}

	var (
		msc      = &MinerSmartContract{}
		nodes    []*MinerNode
		err      error
		panicked interface{}
	)
	func() {
		defer func() { panicked = recover() }()
		nodes, err = msc.reduceShardersList(keep, all, gn, st)
	}()
	if panicked != nil {
		t.Fatalf("reduceShardersList panicked (%v) instead of keeping a sharder of the previous set: "+
			"keep list {old(prev, stake 1), new1(10), new2(9)}, max_s 1, x_percent 0", panicked)
	}
	if err != nil {
		t.Logf("rejected: %v", err)
		return
	}
	if !hasPrevSharderInList(pmb, nodes) {
		ids := []string{}
		for _, n := range nodes {
			ids = append(ids, n.ID)
		}
		t.Fatalf("selected sharders %v contain no sharder of the previous set", fmt.Sprint(ids))
	}
}
