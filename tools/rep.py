#!/usr/bin/env python3
import json,sys
e=json.load(open(f'/verif/evidence/{sys.argv[1]}.json'))
c=e['coverage']
for o in c['obligation_table']:
    if o['verdict']!='discharged' or len(sys.argv)>2:
        print(o['verdict'],o.get('all_solvers'),o['ms'],'ms',o['name'].split('/',2)[-1] if 0 else o['name'].replace('0chain.net/',''),'|',o.get('src','')[:150])
print('notes:',c['dropped_by_translation'])
print(c['obligations'],c['discharged'],e['wall_s'])
