package main

import (
	"fmt"
	"os"
	"go/token"
	"go/types"
	"strings"

	"golang.org/x/tools/go/ssa"
)

func hasArrayLeaf(t types.Type) bool {
	switch u := t.Underlying().(type) {
	case *types.Array:
		return true
	case *types.Struct:
		for i := 0; i < u.NumFields(); i++ {
			if hasArrayLeaf(u.Field(i).Type()) {
				return true
			}
		}
	}
	return false
}

func (vc *VC) instr(in ssa.Instruction, h *Heap) {
	if vc.skipped(in) {
		return
	}
	if vc.parent == nil && vc.ct != nil && len(vc.ct.Covers) > 0 {
		vc.coverCheck(in)
	}
	vc.instr1(in, h)
}

// coverCheck: `reachable[label] "<text>"` - the first instruction of the function whose source line
// contains <text> gets a cover obligation: its path condition together with everything established
// before it (requires, callee postconditions, invariants - quantified facts included) must not be
// refutable. `unsat` = the statement is dead code under the contracts; `sat`/`unknown` = fine.
func (vc *VC) coverCheck(in ssa.Instruction) {
	p := in.Pos()
	if !p.IsValid() {
		return
	}
	fset := vc.P.Prog.Fset
	f := fset.File(p)
	if f == nil {
		return
	}
	src := vc.srcBytes(f.Name())
	if src == nil {
		return
	}
	ln := f.Line(p)
	a := f.Offset(f.LineStart(ln))
	b := len(src)
	if ln < f.LineCount() {
		b = f.Offset(f.LineStart(ln + 1))
	}
	if a < 0 || b > len(src) || a > b {
		return
	}
	text := normWS(string(src[a:b]))
	if vc.coverSeen == nil {
		vc.coverSeen = map[string]bool{}
	}
	for _, c := range vc.ct.Covers {
		if vc.coverSeen[c.Label] || !strings.Contains(text, normWS(c.Text)) {
			continue
		}
		vc.coverSeen[c.Label] = true
		vc.addObl(&Obligation{Name: fmt.Sprintf("%s/reachable[%s]", vc.key, c.Label), Kind: "cover", Goal: vc.curR, Expect: "sat",
			Pos: vc.pos(p), Src: fmt.Sprintf("the statement %q can be executed: the contracts of the callees and the requires clause do not rule its path condition out", c.Text)})
	}
}

// skipped reports whether the instruction only feeds logging (see logonly.go).
func (vc *VC) skipped(in ssa.Instruction) bool {
	if vc.logSkip == nil {
		vc.logSkip = map[ssa.Instruction]bool{}
		vc.logSkipFn = map[*ssa.Function]bool{}
	}
	if pf := in.Parent(); pf != nil && !vc.logSkipFn[pf] {
		vc.logSkipFn[pf] = true
		m := computeLogOnly(pf)
		for k := range m {
			vc.logSkip[k] = true
		}
		if os.Getenv("GOVC_DEBUG_LOGSKIP") != "" {
			n := 0
			for _, b := range pf.Blocks {
				n += len(b.Instrs)
			}
			fmt.Fprintf(os.Stderr, "logskip %s: %d of %d instrs\n", pf.String(), len(m), n)
		}
	}
	return vc.logSkip[in]
}

func (vc *VC) instr1(in ssa.Instruction, h *Heap) {
	switch x := in.(type) {
	case *ssa.DebugRef:
		return
	case *ssa.Alloc:
		dyn := 0
		et := x.Type().Underlying().(*types.Pointer).Elem()
		if id, ok := vc.baseType(et); ok {
			dyn = id
		} else if id, ok := vc.backingType(et); ok {
			dyn = id
		} else if _, isArr := et.Underlying().(*types.Array); !isArr {
			dyn = vc.typeID(et)
			vc.recordIDType(dyn, et)
		}
		o := vc.alloc(h, vc.curR, dyn, et)
		vc.vals[x] = []string{"(mkptr " + o + " 0 0)"}
		if types.TypeString(et, nil) == "strings.Builder" {
			if gname, g, ok := vc.ghostHeap(h, "$sb"); ok {
				h.M["G_$sb"] = vc.define("G__sb", g.SMTSort(), sto(gname, o, "str_empty"))
			}
		}
	case *ssa.FieldAddr:
		base := ptrAddr(vc.val1(x.X))
		st := x.X.Type().Underlying().(*types.Pointer).Elem().Underlying().(*types.Struct)
		off, _ := vc.L.FieldOffset(st, x.Field)
		vc.setVal(x, []string{base.Plus(off).Ptr()})
	case *ssa.Field:
		st := x.X.Type().Underlying().(*types.Struct)
		off, n := vc.L.FieldOffset(st, x.Field)
		vc.vals[x] = vc.val(x.X)[off : off+n]
	case *ssa.IndexAddr:
		i := vc.val1(x.Index)
		switch x.X.Type().Underlying().(type) {
		case *types.Slice:
			s := vc.val1(x.X)
			vc.boundsObl(x, i, "(s_len "+s+")")
			vc.setVal(x, []string{"(mkptr (s_obj " + s + ") (s_slot " + s + ") " + plus("(s_off "+s+")", i) + ")"})
		default: // pointer to array
			a := ptrAddr(vc.val1(x.X))
			if at, ok := x.X.Type().Underlying().(*types.Pointer).Elem().Underlying().(*types.Array); ok {
				vc.boundsObl(x, i, num(at.Len()))
			}
			vc.setVal(x, []string{"(mkptr " + a.Obj + " " + a.Slot + " " + plus(a.Idx, i) + ")"})
		}
	case *ssa.Index:
		vc.note("Index on array/string value: result abstracted")
		r := vc.freshVals(x.Name(), x.Type())
		vc.assumeRanges("true", r, x.Type(), *h)
		vc.vals[x] = r
	case *ssa.UnOp:
		vc.unop(x, h)
	case *ssa.BinOp:
		vc.setVal(x, []string{vc.binop(x.Op, x.X.Type(), vc.val(x.X), vc.val(x.Y), x.Y)})
	case *ssa.Store:
		a := ptrAddr(vc.val1(x.Addr))
		vc.nilObl(x, a, x.Pos())
		if hasArrayLeaf(x.Val.Type()) {
			vc.note("store of array value: rows havocked")
			for i, l := range vc.L.Leaves(x.Val.Type()) {
				cur := h.H[l.Sort]
				slot := plus(a.Slot, num(int64(i)))
				fr := vc.declare(vc.fresh("row"), "(Array Int "+innerSort[l.Sort]+")")
				h.H[l.Sort] = vc.define("H"+sortTag[l.Sort], heapSortName(l.Sort), sto(cur, a.Obj, sto(sel(cur, a.Obj), slot, fr)))
			}
			return
		}
		vc.store(h, a, x.Val.Type(), vc.val(x.Val))
	case *ssa.Phi:
	case *ssa.If, *ssa.Jump:
	case *ssa.Return:
		var vs [][]string
		for _, r := range x.Results {
			vs = append(vs, vc.val(r))
		}
		vc.rets = append(vc.rets, retRec{blk: vc.curBlock, guard: vc.curR, vals: vs, heap: h.clone()})
	case *ssa.Panic:
		vc.panicSite(x.Pos(), "explicit panic")
		vc.curR = "false"
	case *ssa.Extract:
		tup := x.Tuple.Type().(*types.Tuple)
		off := 0
		for i := 0; i < x.Index; i++ {
			off += len(vc.L.Leaves(tup.At(i).Type()))
		}
		n := len(vc.L.Leaves(tup.At(x.Index).Type()))
		all := vc.val(x.Tuple)
		if off+n <= len(all) {
			vc.vals[x] = all[off : off+n]
		} else {
			vc.vals[x] = vc.freshVals(x.Name(), x.Type())
		}
	case *ssa.Convert:
		vc.convert(x, h)
	case *ssa.ChangeType:
		vc.vals[x] = vc.val(x.X)
	case *ssa.ChangeInterface:
		vc.vals[x] = vc.val(x.X)
	case *ssa.MakeInterface:
		t := x.X.Type()
		tid := num(int64(vc.typeID(t)))
		if _, isPtr := t.Underlying().(*types.Pointer); isPtr {
			vc.setVal(x, []string{"(mkiface " + tid + " " + vc.val1(x.X) + ")"})
		} else if _, isIface := t.Underlying().(*types.Interface); isIface {
			vc.vals[x] = vc.val(x.X)
		} else {
			o := vc.alloc(h, vc.curR, 0, t)
			vc.store(h, Addr{o, "0", "0"}, t, vc.val(x.X))
			vc.setVal(x, []string{"(mkiface " + tid + " (mkptr " + o + " 0 0))"})
			if isString(t) {
				// the string boxed in the interface value (read back by boxstr(x) in contracts and
				// related across == on interfaces in ifaceEq)
				vc.declareRaw("box_str", "(declare-fun box_str (Iface) Str)")
				vc.assume(implies(vc.curR, eq("(box_str "+vc.val1(x)+")", vc.val1(x.X))))
			}
		}
	case *ssa.TypeAssert:
		vc.typeAssert(x, h)
	case *ssa.Slice:
		vc.sliceOp(x, h)
	case *ssa.MakeSlice:
		dyn, _ := vc.backingType(x.Type())
		o := vc.alloc(h, vc.curR, dyn, x.Type())
		vc.setVal(x, []string{"(mkslice " + o + " 0 0 " + vc.val1(x.Len) + " " + vc.val1(x.Cap) + ")"})
	case *ssa.MakeMap:
		o := vc.alloc(h, vc.curR, vc.mapTypeID(x.Type()), x.Type())
		vc.vals[x] = []string{o}
	case *ssa.MakeChan:
		o := vc.alloc(h, vc.curR, 0)
		vc.vals[x] = []string{o}
	case *ssa.MapUpdate:
		mt := x.Map.Type().Underlying().(*types.Map)
		vc.mapUpdate(h, vc.val1(x.Map), mt, vc.val1(x.Key), vc.val(x.Value))
	case *ssa.Lookup:
		if mt, ok := x.X.Type().Underlying().(*types.Map); ok {
			vals, okT := vc.mapLookup(h, vc.val1(x.X), mt, vc.val1(x.Index))
			named := make([]string, len(vals))
			for i, v := range vals {
				named[i] = v
			}
			vc.assumeRangesLazy(named, mt.Elem(), *h)
			if x.CommaOk {
				vc.setVal(x, append(named, okT))
			} else {
				vc.setVal(x, named)
			}
		} else {
			r := vc.freshVals(x.Name(), x.Type())
			vc.assumeRanges("true", r, x.Type(), *h)
			vc.vals[x] = r
		}
	case *ssa.Range:
		if _, ok := x.X.Type().Underlying().(*types.Map); ok {
			vc.vals[x] = []string{vc.val1(x.X)}
			vc.rangeOf[x] = x.X
		} else {
			vc.vals[x] = []string{"0"}
		}
	case *ssa.Next:
		vc.next(x, h)
	case *ssa.MakeClosure:
		o := vc.alloc(h, vc.curR, 0)
		slot := 0
		for _, b := range x.Bindings {
			vc.store(h, Addr{o, num(int64(slot)), "0"}, b.Type(), vc.val(b))
			slot += len(vc.L.Leaves(b.Type()))
		}
		vc.vals[x] = []string{o}
	case *ssa.Call:
		res := vc.call(x, x.Common(), h)
		if res != nil {
			vc.setVal(x, res)
		} else {
			vc.vals[x] = nil
		}
	case *ssa.Defer:
		vc.defers = append(vc.defers, deferRec{call: x, guard: vc.curR})
	case *ssa.RunDefers:
		for i := len(vc.defers) - 1; i >= 0; i-- {
			d := vc.defers[i]
			if vc.loopContaining(d.call.Block()) != nil {
				vc.note("defer inside loop: ignored")
				continue
			}
			saved := vc.curR
			hc := h.clone()
			vc.curR = and(saved, d.guard)
			vc.call(d.call, d.call.Common(), &hc)
			*h = vc.mergeHeaps([]string{d.guard}, []Heap{hc, *h})
			vc.curR = saved
		}
	case *ssa.Go:
		vc.note("go statement: spawned goroutine not modelled (concurrency-abstracted)")
	case *ssa.Send:
		vc.note("channel send: not modelled")
	case *ssa.Select:
		vc.note("select: which case fires and what is received are arbitrary; blocking is not modelled")
		r := vc.freshVals(x.Name(), x.Type())
		vc.assumeRanges("true", r, x.Type(), *h)
		vc.vals[x] = r
	default:
		if v, ok := in.(ssa.Value); ok {
			vc.note(fmt.Sprintf("unmodelled instruction %T: result abstracted", in))
			r := vc.freshVals(v.Name(), v.Type())
			vc.assumeRanges("true", r, v.Type(), *h)
			vc.vals[v] = r
		} else {
			vc.note(fmt.Sprintf("unmodelled instruction %T", in))
		}
	}
}

func (vc *VC) loopContaining(b *ssa.BasicBlock) *loopInfo {
	for _, l := range vc.loops {
		if l.body[b] {
			return l
		}
	}
	return nil
}

func (vc *VC) assumeRangesLazy(terms []string, t types.Type, h Heap) {
	vc.assumeRanges(vc.curR, terms, t, h)
}

// ---------------------------------------------------------------- safety obligations (opt-in)

func (vc *VC) wantNoPanic() bool {
	r := vc.root()
	return r.ct != nil && r.ct.Flags["nopanic"] && vc.parent == nil
}

func (vc *VC) boundsObl(in ssa.Instruction, i, n string) {
	if !vc.wantNoPanic() {
		return
	}
	vc.addObl(&Obligation{Name: fmt.Sprintf("%s/nopanic@%s[index]", vc.key, vc.pos(in.Pos())), Kind: "nopanic",
		Goal: implies(vc.curR, "(and (<= 0 "+i+") (< "+i+" "+n+"))"), Pos: vc.pos(in.Pos()), Src: "index in range"})
}

func (vc *VC) nilObl(in ssa.Instruction, a Addr, p token.Pos) {
	if strings.HasPrefix(a.Obj, "obj_") || strings.HasPrefix(a.Obj, vc.prefix+"obj_") {
		return
	}
	if vc.wantNoPanic() {
		vc.addObl(&Obligation{Name: fmt.Sprintf("%s/nopanic@%s[nil]", vc.key, vc.pos(p)), Kind: "nopanic",
			Goal: implies(vc.curR, not(eq(a.Obj, "0"))), Pos: vc.pos(p), Src: "non-nil dereference"})
	}
	// A load or store through a nil pointer panics: what follows on this path is not an execution that
	// returns (partial correctness, like an explicit panic). Stated after the obligation, so that a
	// no-panic claim still has to prove it.
	vc.assume(implies(vc.curR, not(eq(a.Obj, "0"))))
}

func (vc *VC) panicSite(p token.Pos, what string) {
	if !vc.wantNoPanic() {
		r := vc.root()
		if !(r.ct != nil && r.ct.Flags["nopanic-explicit"] && vc.parent == nil && (what == "explicit panic" || what == "panic")) {
			return
		}
	}
	vc.addObl(&Obligation{Name: fmt.Sprintf("%s/nopanic@%s[panic]", vc.key, vc.pos(p)), Kind: "nopanic",
		Goal: not(vc.curR), Pos: vc.pos(p), Src: what + " unreachable"})
}

// ---------------------------------------------------------------- operators

func (vc *VC) unop(x *ssa.UnOp, h *Heap) {
	switch x.Op {
	case token.MUL:
		a := ptrAddr(vc.val1(x.X))
		vc.nilObl(x, a, x.Pos())
		if hasArrayLeaf(x.Type()) {
			vc.note("load of array value: abstracted")
			vc.vals[x] = vc.freshVals(x.Name(), x.Type())
			return
		}
		terms := vc.load(*h, a, x.Type())
		vc.setVal(x, terms)
		vc.assumeLoadRanges(vc.vals[x], x.Type(), *h, a.Obj)
	case token.SUB:
		v := vc.val1(x.X)
		if isFloat(x.Type()) {
			vc.setVal(x, []string{"(f64_neg " + v + ")"})
		} else {
			vc.setVal(x, []string{vc.wrap("(- "+v+")", x.Type())})
		}
	case token.NOT:
		vc.setVal(x, []string{not(vc.val1(x.X))})
	case token.XOR:
		r := vc.freshVals(x.Name(), x.Type())
		vc.assumeRanges("true", r, x.Type(), *h)
		vc.vals[x] = r
	case token.ARROW:
		vc.note("channel receive: result abstracted")
		r := vc.freshVals(x.Name(), x.Type())
		vc.assumeRanges("true", r, x.Type(), *h)
		vc.vals[x] = r
	default:
		vc.vals[x] = vc.freshVals(x.Name(), x.Type())
	}
}

func (vc *VC) wrap(term string, t types.Type) string {
	bits, signed := intBits(t)
	if bits == 64 {
		if signed {
			return "(wrap_s64 " + term + ")"
		}
		return "(wrap_u64 " + term + ")"
	}
	return vc.wrapMod(term, t)
}

func pow2(bits int) string {
	switch bits {
	case 8:
		return "256"
	case 16:
		return "65536"
	case 32:
		return "4294967296"
	}
	return "18446744073709551616"
}
func pow2m1(bits int) string {
	switch bits {
	case 8:
		return "128"
	case 16:
		return "32768"
	case 32:
		return "2147483648"
	}
	return "9223372036854775808"
}

// wrapMod reduces an arbitrary integer to the type's range (two's complement).
func (vc *VC) wrapMod(term string, t types.Type) string {
	bits, signed := intBits(t)
	m := "(mod " + term + " " + pow2(bits) + ")"
	if !signed {
		return m
	}
	return "(let ((wm " + m + ")) (ite (>= wm " + pow2m1(bits) + ") (- wm " + pow2(bits) + ") wm))"
}

func (vc *VC) binop(op token.Token, t types.Type, xs, ys []string, yv ssa.Value) string {
	x, y := "0", "0"
	if len(xs) > 0 {
		x = xs[0]
	}
	if len(ys) > 0 {
		y = ys[0]
	}
	switch {
	case isInteger(t):
		switch op {
		case token.ADD:
			return vc.wrap("(+ "+x+" "+y+")", t)
		case token.SUB:
			return vc.wrap("(- "+x+" "+y+")", t)
		case token.MUL:
			return vc.wrapMod("(* "+x+" "+y+")", t)
		case token.QUO:
			return "(tdiv " + x + " " + y + ")"
		case token.REM:
			return "(tmod " + x + " " + y + ")"
		case token.EQL:
			return eq(x, y)
		case token.NEQ:
			return not(eq(x, y))
		case token.LSS:
			return "(< " + x + " " + y + ")"
		case token.LEQ:
			return "(<= " + x + " " + y + ")"
		case token.GTR:
			return "(> " + x + " " + y + ")"
		case token.GEQ:
			return "(>= " + x + " " + y + ")"
		case token.SHL:
			if c, ok := yv.(*ssa.Const); ok && c.Value != nil {
				if n, ok := constInt(c); ok && n >= 0 && n < 63 {
					return vc.wrapMod(fmt.Sprintf("(* %s %d)", x, int64(1)<<uint(n)), t)
				}
			}
		case token.SHR:
			if c, ok := yv.(*ssa.Const); ok && c.Value != nil {
				if n, ok := constInt(c); ok && n >= 0 && n < 63 {
					return fmt.Sprintf("(div %s %d)", x, int64(1)<<uint(n))
				}
			}
		case token.AND:
			// x & (2^k - 1) on an unsigned operand is x mod 2^k
			if b, isB := t.Underlying().(*types.Basic); isB && b.Info()&types.IsUnsigned != 0 {
				if c, ok := yv.(*ssa.Const); ok && c.Value != nil {
					if m, ok := constInt(c); ok && m >= 0 && m < (int64(1)<<62) && (m+1)&m == 0 {
						return fmt.Sprintf("(mod %s %d)", x, m+1)
					}
				}
			}
		}
		return "(uf_int " + num(int64(op)) + " " + x + " " + y + ")"
	case isFloat(t):
		switch op {
		case token.ADD:
			return "(f64_add " + x + " " + y + ")"
		case token.SUB:
			return "(f64_sub " + x + " " + y + ")"
		case token.MUL:
			return "(f64_mul " + x + " " + y + ")"
		case token.QUO:
			return "(f64_div " + x + " " + y + ")"
		case token.EQL:
			return eq(x, y)
		case token.NEQ:
			return not(eq(x, y))
		case token.LSS:
			return "(f64_lt " + x + " " + y + ")"
		case token.LEQ:
			return "(f64_le " + x + " " + y + ")"
		case token.GTR:
			return "(f64_lt " + y + " " + x + ")"
		case token.GEQ:
			return "(f64_le " + y + " " + x + ")"
		}
	case isString(t):
		switch op {
		case token.ADD:
			return "(str_concat " + x + " " + y + ")"
		case token.EQL:
			return eq(x, y)
		case token.NEQ:
			return not(eq(x, y))
		case token.LSS:
			return "(str_lt " + x + " " + y + ")"
		case token.GTR:
			return "(str_lt " + y + " " + x + ")"
		case token.LEQ:
			return or("(str_lt "+x+" "+y+")", eq(x, y))
		case token.GEQ:
			return or("(str_lt "+y+" "+x+")", eq(x, y))
		}
	case isBool(t):
		switch op {
		case token.EQL:
			return eq(x, y)
		case token.NEQ:
			return not(eq(x, y))
		case token.AND, token.LAND:
			return and(x, y)
		case token.OR, token.LOR:
			return or(x, y)
		}
	default:
		// pointers, interfaces, refs, structs: == / !=
		var e string
		if _, isIface := t.Underlying().(*types.Interface); isIface {
			e = vc.ifaceEq(x, y)
		} else if _, isPtr := t.Underlying().(*types.Pointer); isPtr && len(xs) == 1 && len(ys) == 1 && (xs[0] == "nilptr" || ys[0] == "nilptr") {
			// p == nil: the pointer refers to no object (contract clauses test nil the same way; a pointer
			// VALUE with object 0 and a non-zero slot does not exist in Go)
			p := xs[0]
			if p == "nilptr" {
				p = ys[0]
			}
			e = eq("(p_obj "+p+")", "0")
		} else {
			var cs []string
			for i := range xs {
				if i < len(ys) {
					cs = append(cs, eq(xs[i], ys[i]))
				}
			}
			e = and(cs...)
		}
		if op == token.EQL {
			return e
		}
		if op == token.NEQ {
			return not(e)
		}
	}
	vc.note("unsupported binary operator " + op.String() + " on " + t.String())
	return vc.declare(vc.fresh("binop"), "Bool")
}

func (vc *VC) ifaceEq(x, y string) string {
	if x == "niliface" || y == "niliface" {
		return eq(x, y)
	}
	vc.declareRaw("iface_eq", "(declare-fun iface_eq (Iface Iface) Bool)")
	if !strings.Contains(x+y, "q_") {
		vc.assume("(=> (iface_eq " + x + " " + y + ") (= (i_tid " + x + ") (i_tid " + y + ")))")
		// dynamic values of pointer type compare by identity
		vc.declareRaw("ptr_tid", "(declare-fun ptr_tid (Int) Bool)")
		vc.assume("(=> (and (iface_eq " + x + " " + y + ") (or (= (i_tid " + x + ") 0) (ptr_tid (i_tid " + x + ")))) (= " + x + " " + y + "))")
		// dynamic values of a string type compare by content (box_str is meaningless, and
		// unconstrained, for every other dynamic type)
		vc.declareRaw("box_str", "(declare-fun box_str (Iface) Str)")
		vc.assume("(=> (iface_eq " + x + " " + y + ") (= (box_str " + x + ") (box_str " + y + ")))")
	}
	return "(or (= " + x + " " + y + ") (iface_eq " + x + " " + y + "))"
}

func constInt(c *ssa.Const) (int64, bool) {
	if c.Value == nil {
		return 0, false
	}
	return c.Int64(), true
}

func (vc *VC) convert(x *ssa.Convert, h *Heap) {
	from, to := x.X.Type(), x.Type()
	v := vc.val(x.X)
	switch {
	case isInteger(from) && isInteger(to):
		flo, fhi, _ := intRange(from)
		tlo, thi, _ := intRange(to)
		_ = flo
		_ = fhi
		_ = tlo
		_ = thi
		fb, fs := intBits(from)
		tb, ts := intBits(to)
		if (fs == ts && tb >= fb) || (!fs && ts && tb > fb) {
			vc.vals[x] = v
		} else {
			vc.setVal(x, []string{vc.wrapMod(v[0], to)})
		}
	case isInteger(from) && isFloat(to):
		vc.setVal(x, []string{"(f64_of_int " + v[0] + ")"})
	case isFloat(from) && isInteger(to):
		vc.setVal(x, []string{"(int_of_f64 " + v[0] + ")"})
		vc.assumeRanges("true", vc.vals[x], to, *h)
	case isFloat(from) && isFloat(to):
		vc.vals[x] = v
	case isString(to) && isInteger(from):
		vc.setVal(x, []string{"(str_of_int " + v[0] + ")"})
	default:
		// string <-> []byte etc.: deterministic uninterpreted conversion
		name := "conv_" + sanitize(types.TypeString(from, nil)) + "_to_" + sanitize(types.TypeString(to, nil))
		ls := vc.L.Leaves(to)
		fl := vc.L.Leaves(from)
		if len(ls) == 1 && len(fl) == 1 && ls[0].Sort != SSlice {
			vc.declareRaw(name, "(declare-fun "+name+" ("+fl[0].Sort.SMT()+") "+ls[0].Sort.SMT()+")")
			vc.setVal(x, []string{"(" + name + " " + v[0] + ")"})
		} else {
			r := vc.freshVals(x.Name(), to)
			vc.vals[x] = r
		}
		vc.assumeRanges("true", vc.vals[x], to, *h)
	}
}

func (vc *VC) typeAssert(x *ssa.TypeAssert, h *Heap) {
	v := vc.val1(x.X)
	at := x.AssertedType
	var okT string
	var vals []string
	if _, isIface := at.Underlying().(*types.Interface); isIface {
		okv := vc.declare(vc.fresh("taok"), "Bool")
		okT = and(not(eq("(i_tid "+v+")", "0")), okv)
		vals = []string{v}
	} else {
		tid := num(int64(vc.typeID(at)))
		okT = eq("(i_tid "+v+")", tid)
		if _, isPtr := at.Underlying().(*types.Pointer); isPtr {
			vals = []string{ite(okT, "(i_pl "+v+")", "nilptr")}
		} else {
			ld := vc.load(*h, ptrAddr("(i_pl "+v+")"), at)
			zs := vc.zeroVals(at)
			vals = make([]string, len(ld))
			for i := range ld {
				vals[i] = ite(okT, ld[i], zs[i])
			}
		}
	}
	if x.CommaOk {
		vc.setVal(x, append(vals, okT))
	} else {
		if vc.wantNoPanic() {
			vc.addObl(&Obligation{Name: fmt.Sprintf("%s/nopanic@%s[assert]", vc.key, vc.pos(x.Pos())), Kind: "nopanic",
				Goal: implies(vc.curR, okT), Pos: vc.pos(x.Pos()), Src: "type assertion holds"})
		}
		vc.curR = vc.define("R_ta", "Bool", and(vc.curR, okT))
		vc.setVal(x, vals)
	}
	vc.assumeRanges(vc.curR, vc.vals[x][:len(vals)], at, *h)
}

func (vc *VC) sliceOp(x *ssa.Slice, h *Heap) {
	var lo, hi, mx string
	if x.Low != nil {
		lo = vc.val1(x.Low)
	} else {
		lo = "0"
	}
	switch xt := x.X.Type().Underlying().(type) {
	case *types.Slice:
		s := vc.val1(x.X)
		if x.High != nil {
			hi = vc.val1(x.High)
		} else {
			hi = "(s_len " + s + ")"
		}
		if x.Max != nil {
			mx = vc.val1(x.Max)
		} else {
			mx = "(s_cap " + s + ")"
		}
		if vc.wantNoPanic() {
			vc.addObl(&Obligation{Name: fmt.Sprintf("%s/nopanic@%s[slice]", vc.key, vc.pos(x.Pos())), Kind: "nopanic",
				Goal: implies(vc.curR, "(and (<= 0 "+lo+") (<= "+lo+" "+hi+") (<= "+hi+" "+mx+") (<= "+mx+" (s_cap "+s+")))"), Pos: vc.pos(x.Pos()), Src: "slice bounds"})
		}
		vc.setVal(x, []string{"(mkslice (s_obj " + s + ") (s_slot " + s + ") " + plus("(s_off "+s+")", lo) + " (- " + hi + " " + lo + ") (- " + mx + " " + lo + "))"})
	case *types.Pointer:
		at := xt.Elem().Underlying().(*types.Array)
		a := ptrAddr(vc.val1(x.X))
		n := num(at.Len())
		if x.High != nil {
			hi = vc.val1(x.High)
		} else {
			hi = n
		}
		vc.setVal(x, []string{"(mkslice " + a.Obj + " " + a.Slot + " " + plus(a.Idx, lo) + " (- " + hi + " " + lo + ") (- " + n + " " + lo + "))"})
	default: // string
		r := vc.freshVals(x.Name(), x.Type())
		vc.vals[x] = r
		vc.note("string slicing: abstracted")
	}
}

func (vc *VC) next(x *ssa.Next, h *Heap) {
	tup := x.Type().(*types.Tuple)
	rng, _ := x.Iter.(*ssa.Range)
	if rng != nil {
		if mt, ok := rng.X.Type().Underlying().(*types.Map); ok && !x.IsString {
			m := vc.val1(rng.X)
			okv := vc.declare(vc.fresh("nextok"), "Bool")
			kt := mt.Key()
			k := vc.freshVals("nextk", kt)
			vc.assumeRanges("true", k, kt, *h)
			vals, has := vc.mapLookup(h, m, mt, k[0])
			vc.assume(implies(okv, has))
			// when the map is empty iteration ends immediately
			vc.assume(implies(eq(sel(vc.mapLen(h), m), "0"), not(okv)))
			// tuple slots of unused iteration variables have the invalid type (one dummy leaf)
			out := []string{okv}
			if tup.At(1).Type() == types.Typ[types.Invalid] {
				out = append(out, "0")
			} else {
				out = append(out, k...)
			}
			if tup.At(2).Type() == types.Typ[types.Invalid] {
				out = append(out, "0")
			} else {
				out = append(out, vals...)
			}
			vc.vals[x] = nil
			named := make([]string, len(out))
			copy(named, out)
			vc.vals[x] = named
			vc.note("range over map: iteration order unconstrained, visited-set not tracked")
			return
		}
	}
	r := vc.freshVals(x.Name(), x.Type())
	vc.assumeRanges("true", r, x.Type(), *h)
	vc.vals[x] = r
}
