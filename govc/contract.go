package main

import (
	"fmt"
	"os"
	"path/filepath"
	"strconv"
	"strings"
	"unicode"
)

// ---------------------------------------------------------------- contract data

type Clause struct {
	Label string
	Src   string
	E     Expr
	Line  int
}

type LoopSpec struct {
	Ord       int // 1-based ordinal in source pre-order
	Header    string
	Invs      []Clause
	Decreases *Clause
	Nondec    []Clause
	Modifies  []Clause
}

type FuncContract struct {
	Pkg       string // package path
	Name      string // "(*T).M" or "F"
	Kind      string // func | assume | iface
	Mode      string // int | bv
	Requires  []Clause
	Ensures   []Clause
	Modifies  []Clause
	ModAll    bool // modifies everything
	HasMod    bool
	Loops     map[int]*LoopSpec
	LockBal   []Clause
	Asserts   []Clause // assert@<callee>#n style ghost assertions (unused yet)
	Flags     map[string]bool
	Params    []string // for assume/iface: parameter names in order (optional)
	File      string
	Line      int
	Props     []string // property ids this contract serves (prop C10,C23)
	InlineMax int
	AtCall    map[string][]Clause
	AtCallGhost map[string][]Clause // callee -> accumulator updates (Label = ghost name, E = increment)
	Callbacks map[string][]string // function-typed parameter -> ghost names its calls are assumed to preserve
	Binds     []Clause            // locations the result must commit to (relational obligations)
	Opaque    map[string]bool     // callees (short names) treated as unknown code at call sites of this function
	DeadPaths int // number of path conditions the contracts make infeasible (reviewed)
	SortedBy  []SortSpec
	Dynamic   map[string][]Clause // local function variable -> locations its calls are assumed to preserve
	AtReturn  []Clause // at-return assert[label] e: postconditions that may name locals
	DynamicFail map[string]string// local function variable -> Bool ghost recording "its call returned an error"
	Covers    []*CoverSpec       // reachable[label] "<source text>": the statement must not be dead code under the contracts
}

// CoverSpec: `reachable[label] "<text>"` names a statement of the function by (a fragment of) its
// source line. The obligation `<func>/reachable[label]` fails when the solver PROVES, from the
// contracts of the callees and the function's own requires, that the statement can never execute.
type CoverSpec struct {
	Label string
	Text  string
	Seen  bool
	Line  int
}

func clauseSrcs(cs []Clause) string {
	var s []string
	for _, c := range cs {
		s = append(s, c.Src)
	}
	return strings.Join(s, ", ")
}

// SortSpec: `sorted <slice> by <order>` - the order a sort call establishes on a named slice.
type SortSpec struct {
	Name, Label, Order string
	Line               int
	Seen               int
	AssumeOrdered      bool
}

func (c *FuncContract) Key() string { return c.Pkg + "." + c.Name }

type SpecFunc struct {
	Pkg    string
	Name   string
	Params []SpecParam
	Ret    string
	Body   Expr
	Src    string
}
type SpecParam struct{ Name, Type string }

type UFDecl struct{ Name, Decl, Ret string }

// GhostDecl: specification-only state threaded through the heap like a map heap.
type GhostDecl struct {
	Name, Key, Val string
	Acc            bool
}

type ContractSet struct {
	Funcs map[string]*FuncContract // by Key
	Specs map[string]*SpecFunc     // by name (package-local names must be unique overall)
	UFs   map[string]*UFDecl
	Ghosts map[string]*GhostDecl
	Files []string
	Writers []*WriterDecl
}

func NewContractSet() *ContractSet {
	cs := &ContractSet{Funcs: map[string]*FuncContract{}, Specs: map[string]*SpecFunc{}, UFs: map[string]*UFDecl{}, Ghosts: map[string]*GhostDecl{}}
	// built-in: the text accumulated in a strings.Builder object (model in vccall.go)
	cs.Ghosts["$sb"] = &GhostDecl{Name: "$sb", Key: "Int", Val: "Str"}
	return cs
}

var clauseKW = map[string]bool{"requires": true, "ensures": true, "modifies": true, "loop": true, "lock-balanced": true,
	"terminates": true, "thin": true, "nopanic": true, "mode": true, "params": true, "prop": true, "pure": true, "noinline": true, "trusted": true,
	"at-call": true, "nodeadlock": true, "inline-all": true, "at-call-inlined": true, "dead-paths": true, "sorted": true, "comparator": true, "dynamic": true, "callback": true, "opaque": true, "binds": true, "binds-accept": true, "reachable": true, "at-return": true}

// ParseContractFile reads //@ lines. pkgPath is the package the file belongs to ("" for dep files,
// which must then use full names "pkgpath.Func").
func (cs *ContractSet) ParseContractFile(path, pkgPath string) error {
	b, err := os.ReadFile(path)
	if err != nil {
		return err
	}
	cs.Files = append(cs.Files, path)
	type ln struct {
		s string
		n int
	}
	var lines []ln
	for i, l := range strings.Split(string(b), "\n") {
		t := strings.TrimSpace(l)
		if !strings.HasPrefix(t, "//@") {
			continue
		}
		t = strings.TrimSpace(t[3:])
		if t == "" || strings.HasPrefix(t, "--") {
			continue
		}
		if j := strings.Index(t, " -- "); j >= 0 { // trailing comment
			t = strings.TrimSpace(t[:j])
		}
		first := strings.Fields(t)[0]
		if b := strings.Index(first, "["); b > 0 {
			first = first[:b]
		}
		isKW := clauseKW[first] || first == "func" || first == "assume" || first == "iface" || first == "spec" || first == "uf" || first == "ghost" || first == "writers"
		if !isKW && len(lines) > 0 {
			lines[len(lines)-1].s += " " + t
			continue
		}
		lines = append(lines, ln{t, i + 1})
	}
	var cur *FuncContract
	for _, l := range lines {
		f := strings.Fields(l.s)
		kw := f[0]
		label := ""
		if b := strings.Index(kw, "["); b > 0 && strings.HasSuffix(kw, "]") {
			label = kw[b+1 : len(kw)-1]
			kw = kw[:b]
		}
		rest := strings.TrimSpace(strings.TrimPrefix(l.s, f[0]))
		mk := func(src string) (Clause, error) {
			e, err := ParseExpr(src)
			if err != nil {
				return Clause{}, fmt.Errorf("%s:%d: %v in %q", path, l.n, err, src)
			}
			return Clause{Label: label, Src: src, E: e, Line: l.n}, nil
		}
		switch kw {
		case "func", "assume", "iface":
			name := rest
			kind := kw
			if kw == "assume" {
				name = strings.TrimSpace(strings.TrimPrefix(rest, "func"))
			}
			pk := pkgPath
			// full name: contains a '/' or a '.' before '(' → split at last '.' preceding the name
			if full := splitFullName(name); full[0] != "" {
				pk, name = full[0], full[1]
			}
			if pk == "" {
				return fmt.Errorf("%s:%d: contract target %q needs a package path", path, l.n, rest)
			}
			cur = &FuncContract{Pkg: pk, Name: name, Kind: kind, Mode: "int", Loops: map[int]*LoopSpec{}, Flags: map[string]bool{}, File: path, Line: l.n}
			if old, dup := cs.Funcs[cur.Key()]; dup {
				return fmt.Errorf("%s:%d: duplicate contract for %s (first at %s:%d)", path, l.n, cur.Key(), old.File, old.Line)
			}
			cs.Funcs[cur.Key()] = cur
		case "ghost":
			// ghost $name (KeySort) ValSort   |   ghost $name ValSort
			if len(f) < 3 {
				return fmt.Errorf("%s:%d: bad ghost declaration", path, l.n)
			}
			g := &GhostDecl{Name: f[1]}
			if strings.HasPrefix(f[2], "(") {
				g.Key = strings.Trim(f[2], "()")
				if len(f) < 4 {
					return fmt.Errorf("%s:%d: bad ghost declaration", path, l.n)
				}
				g.Val = f[3]
			} else {
				g.Val = f[2]
			}
			// `accumulator`: a measure written only by `at-call ... ghost $g += e` clauses and by
			// contracts that name it in `modifies`; calls of unknown code are ASSUMED not to change it
			// (i.e. not to reach a function that updates it) - listed in the evidence
			g.Acc = f[len(f)-1] == "accumulator"
			cs.Ghosts[g.Name] = g
			cur = nil
		case "uf":
			// uf name (Int Str) Bool
			op, cl := strings.Index(rest, "("), strings.Index(rest, ")")
			if op < 0 || cl < op {
				return fmt.Errorf("%s:%d: bad uf declaration", path, l.n)
			}
			name := strings.TrimSpace(rest[:op])
			ret := strings.TrimSpace(rest[cl+1:])
			cs.UFs[name] = &UFDecl{Name: name, Ret: ret, Decl: "(declare-fun " + name + " (" + rest[op+1:cl] + ") " + ret + ")"}
			cur = nil
		case "spec":
			sf, err := parseSpec(rest, pkgPath)
			if err != nil {
				return fmt.Errorf("%s:%d: %v", path, l.n, err)
			}
			if _, dup := cs.Specs[sf.Name]; dup {
				return fmt.Errorf("%s:%d: duplicate spec %s", path, l.n, sf.Name)
			}
			cs.Specs[sf.Name] = sf
			cur = nil
		case "writers":
			w, err := parseWriters(rest, pkgPath, path, l.n)
			if err != nil {
				return fmt.Errorf("%s:%d: %v", path, l.n, err)
			}
			cs.Writers = append(cs.Writers, w)
			cur = nil
		default:
			if cur == nil {
				return fmt.Errorf("%s:%d: clause outside a contract: %s", path, l.n, l.s)
			}
			switch kw {
			case "requires", "ensures":
				c, err := mk(rest)
				if err != nil {
					return err
				}
				if kw == "requires" {
					cur.Requires = append(cur.Requires, c)
				} else {
					cur.Ensures = append(cur.Ensures, c)
				}
			case "modifies":
				cur.HasMod = true
				if rest == "nothing" {
					break
				}
				if rest == "everything" {
					cur.ModAll = true
					break
				}
				for _, part := range splitTop(rest, ',') {
					c, err := mk(strings.TrimSpace(part))
					if err != nil {
						return err
					}
					cur.Modifies = append(cur.Modifies, c)
				}
			case "lock-balanced":
				for _, part := range splitTop(rest, ',') {
					c, err := mk(strings.TrimSpace(part))
					if err != nil {
						return err
					}
					cur.LockBal = append(cur.LockBal, c)
				}
			case "loop":
				if len(f) < 3 {
					return fmt.Errorf("%s:%d: bad loop clause", path, l.n)
				}
				ord, err := strconv.Atoi(strings.TrimPrefix(f[1], "#"))
				if err != nil {
					return fmt.Errorf("%s:%d: bad loop ordinal %q", path, l.n, f[1])
				}
				ls := cur.Loops[ord]
				if ls == nil {
					ls = &LoopSpec{Ord: ord}
					cur.Loops[ord] = ls
				}
				sub := f[2]
				srest := strings.TrimSpace(l.s[strings.Index(l.s, sub)+len(sub):])
				if b := strings.Index(sub, "["); b > 0 && strings.HasSuffix(sub, "]") {
					label = sub[b+1 : len(sub)-1] // loop N invariant[label] ...
					sub = sub[:b]
				}
				switch sub {
				case "invariant":
					c, err := mk(srest)
					if err != nil {
						return err
					}
					ls.Invs = append(ls.Invs, c)
				case "decreases":
					c, err := mk(srest)
					if err != nil {
						return err
					}
					ls.Decreases = &c
				case "nondecreasing":
					// the integer expression never gets smaller from one iteration to the next
					c, err := mk(srest)
					if err != nil {
						return err
					}
					ls.Nondec = append(ls.Nondec, c)
				case "header":
					ls.Header = strings.Trim(srest, `"`)
				case "modifies":
					for _, part := range splitTop(srest, ',') {
						c, err := mk(strings.TrimSpace(part))
						if err != nil {
							return err
						}
						ls.Modifies = append(ls.Modifies, c)
					}
				default:
					return fmt.Errorf("%s:%d: bad loop clause kind %q", path, l.n, sub)
				}
			case "at-call":
				// at-call <callee short name> assert <expr>: checked in the caller's state right
				// before every call of that callee (old() is the caller's entry state)
				if len(f) >= 6 && f[2] == "ghost" && f[4] == "+=" {
					// at-call <callee> ghost $g += <expr>: specification-only accumulator, updated right
					// before every call of that callee (after the at-call assertions of that call)
					srest := strings.TrimSpace(l.s[strings.Index(l.s, " += ")+4:])
					c, err := mk(srest)
					if err != nil {
						return err
					}
					c.Label = f[3]
					if cur.AtCallGhost == nil {
						cur.AtCallGhost = map[string][]Clause{}
					}
					cur.AtCallGhost[f[1]] = append(cur.AtCallGhost[f[1]], c)
					break
				}
				if len(f) < 4 || !strings.HasPrefix(f[2], "assert") {
					return fmt.Errorf("%s:%d: at-call <callee> assert <expr>", path, l.n)
				}
				srest := strings.TrimSpace(l.s[strings.Index(l.s, " "+f[2]+" ")+len(f[2])+2:])
				c, err := mk(srest)
				if err != nil {
					return err
				}
				if b := strings.Index(f[2], "["); b > 0 && strings.HasSuffix(f[2], "]") {
					c.Label = f[2][b+1 : len(f[2])-1]
				}
				if cur.AtCall == nil {
					cur.AtCall = map[string][]Clause{}
				}
				cur.AtCall[f[1]] = append(cur.AtCall[f[1]], c)
			case "at-return":
				// at-return assert[label] <expr>: like ensures, checked at every return, but the expression
				// may name local variables of the function (their values at that return). On a return
				// where a named local does not exist yet, a clause `A ==> B` demands that A is false.
				if len(f) < 3 || !strings.HasPrefix(f[1], "assert") {
					return fmt.Errorf("%s:%d: at-return assert[label] <expr>", path, l.n)
				}
				srest := strings.TrimSpace(l.s[strings.Index(l.s, " "+f[1]+" ")+len(f[1])+2:])
				c, err := mk(srest)
				if err != nil {
					return err
				}
				if b := strings.Index(f[1], "["); b > 0 && strings.HasSuffix(f[1], "]") {
					c.Label = f[1][b+1 : len(f[1])-1]
				}
				cur.AtReturn = append(cur.AtReturn, c)
			case "binds", "binds-accept":
				// binds <lvalue>, ...: the (single) result commits to each listed location (relational.go)
				// binds-accept <lvalue>, ...: two runs that both return a nil error agree on the location
				for _, part := range splitTop(rest, ',') {
					c, err := mk(strings.TrimSpace(part))
					if err != nil {
						return err
					}
					if kw == "binds-accept" {
						c.Label = "accept"
					}
					cur.Binds = append(cur.Binds, c)
				}
			case "opaque":
				// opaque <callee>, ...: calls of these callees are treated as calls of unknown code
				// (everything reachable is havocked, their contracts are neither required nor assumed).
				// Sound over-approximation; used where only what happens BEFORE the call matters.
				if cur.Opaque == nil {
					cur.Opaque = map[string]bool{}
				}
				for _, g := range strings.Fields(strings.ReplaceAll(rest, ",", " ")) {
					cur.Opaque[g] = true
				}
			case "callback":
				// callback <param> preserves $g1, $g2: ASSUMPTION that calls of the function-typed
				// parameter <param> leave the named ghost state unchanged (everything else is havocked)
				if len(f) < 4 || f[2] != "preserves" {
					return fmt.Errorf("%s:%d: callback <param> preserves $ghost, ...", path, l.n)
				}
				if cur.Callbacks == nil {
					cur.Callbacks = map[string][]string{}
				}
				for _, g := range strings.Fields(strings.ReplaceAll(strings.Join(f[3:], " "), ",", " ")) {
					cur.Callbacks[f[1]] = append(cur.Callbacks[f[1]], g)
				}
			case "dynamic":
				// dynamic <variable> preserves <lvalue>, ...: ASSUMPTION that calls of the function value held
				// by that local variable (a dispatch-table entry) leave the listed locations unchanged
				if len(f) == 4 && f[2] == "failure" && strings.HasPrefix(f[3], "$") {
					// dynamic <variable> failure $g: after a call of that function value the Bool ghost $g
					// records whether its (last, error) result was non-nil
					if cur.DynamicFail == nil {
						cur.DynamicFail = map[string]string{}
					}
					cur.DynamicFail[f[1]] = f[3]
					continue
				}
				if len(f) < 4 || f[2] != "preserves" {
					return fmt.Errorf("%s:%d: dynamic <variable> preserves <lvalue>, ...", path, l.n)
				}
				if cur.Dynamic == nil {
					cur.Dynamic = map[string][]Clause{}
				}
				lv := strings.TrimSpace(l.s[strings.Index(l.s, " preserves ")+len(" preserves "):])
				for _, part := range splitTop(lv, ',') {
					c, err := mk(strings.TrimSpace(part))
					if err != nil {
						return err
					}
					cur.Dynamic[f[1]] = append(cur.Dynamic[f[1]], c)
				}
			case "sorted", "comparator":
				// comparator[label] <slice variable> by <order>: obligation (1) only (the ordered-result fact
				// is a two-variable quantifier that slows unrelated proofs of a large function down)
				// sorted[label] <slice variable> by <strict order over $a $b>
				// At the sort.Slice / sort.SliceStable call on that slice: (1) obligation - the comparator
				// closure computes exactly the stated order on the elements at its two indices; (2) after
				// the call the slice is ordered: no later element comes before an earlier one.
				i := strings.Index(rest, " by ")
				if i < 0 {
					return fmt.Errorf("%s:%d: sorted <slice> by <order over $a $b>", path, l.n)
				}
				cur.SortedBy = append(cur.SortedBy, SortSpec{Name: strings.TrimSpace(rest[:i]), Label: label, Order: strings.TrimSpace(rest[i+4:]), Line: l.n, AssumeOrdered: kw == "sorted"})
			case "dead-paths":
				n, err := strconv.Atoi(rest)
				if err != nil {
					return fmt.Errorf("%s:%d: dead-paths <n>", path, l.n)
				}
				cur.DeadPaths = n
			case "mode":
				cur.Mode = rest
			case "params":
				cur.Params = strings.Fields(strings.ReplaceAll(rest, ",", " "))
			case "prop":
				cur.Props = append(cur.Props, strings.Fields(strings.ReplaceAll(rest, ",", " "))...)
			case "reachable":
				txt := strings.Trim(rest, `"`)
				if txt == "" || label == "" {
					return fmt.Errorf("%s:%d: reachable[label] \"<source text>\"", path, l.n)
				}
				cur.Covers = append(cur.Covers, &CoverSpec{Label: label, Text: txt, Line: l.n})
			case "nopanic":
				// `nopanic` : every index, dereference and panic site; `nopanic explicit`: only the
				// panic(...) statements of the source (each must be unreachable)
				if rest == "explicit" {
					cur.Flags["nopanic-explicit"] = true
				} else {
					cur.Flags[kw] = true
				}
			default:
				cur.Flags[kw] = true
			}
		}
	}
	return nil
}

func splitFullName(name string) [2]string {
	// forms: "github.com/x/y.Func", "github.com/x/y.(*T).M", "0chain.net/a/b.(T).M", "(*T).M", "F"
	if strings.HasPrefix(name, "(") {
		return [2]string{"", name}
	}
	if i := strings.Index(name, ".("); i >= 0 {
		return [2]string{name[:i], name[i+1:]}
	}
	if !strings.Contains(name, "/") && strings.Count(name, ".") == 0 {
		return [2]string{"", name}
	}
	i := strings.LastIndex(name, ".")
	if i < 0 {
		return [2]string{"", name}
	}
	return [2]string{name[:i], name[i+1:]}
}

func splitTop(s string, sep rune) []string {
	var out []string
	d := 0
	last := 0
	inStr := false
	for i, c := range s {
		switch {
		case c == '"':
			inStr = !inStr
		case inStr:
		case c == '(' || c == '[':
			d++
		case c == ')' || c == ']':
			d--
		case c == sep && d == 0:
			out = append(out, s[last:i])
			last = i + 1
		}
	}
	out = append(out, s[last:])
	return out
}

func parseSpec(rest, pkg string) (*SpecFunc, error) {
	// name(p T, q U) R = expr
	rest = strings.TrimSpace(strings.TrimPrefix(rest, "func"))
	op := strings.Index(rest, "(")
	if op < 0 {
		return nil, fmt.Errorf("bad spec: %s", rest)
	}
	name := strings.TrimSpace(rest[:op])
	d := 0
	cl := -1
	for i := op; i < len(rest); i++ {
		if rest[i] == '(' {
			d++
		} else if rest[i] == ')' {
			d--
			if d == 0 {
				cl = i
				break
			}
		}
	}
	if cl < 0 {
		return nil, fmt.Errorf("bad spec params: %s", rest)
	}
	ps := rest[op+1 : cl]
	after := rest[cl+1:]
	eqi := strings.Index(after, "=")
	if eqi < 0 {
		return nil, fmt.Errorf("spec without body: %s", rest)
	}
	ret := strings.TrimSpace(after[:eqi])
	body := strings.TrimSpace(after[eqi+1:])
	sf := &SpecFunc{Pkg: pkg, Name: name, Ret: ret, Src: body}
	for _, p := range splitTop(ps, ',') {
		p = strings.TrimSpace(p)
		if p == "" {
			continue
		}
		sp := strings.IndexAny(p, " \t")
		if sp < 0 {
			return nil, fmt.Errorf("spec param needs a type: %q", p)
		}
		sf.Params = append(sf.Params, SpecParam{p[:sp], strings.TrimSpace(p[sp:])})
	}
	e, err := ParseExpr(body)
	if err != nil {
		return nil, fmt.Errorf("spec %s: %v", name, err)
	}
	sf.Body = e
	return sf, nil
}

// LoadContracts reads every zz_verif_contracts.go under the repo module plus /verif/contracts/*.vc.
func LoadContracts() (*ContractSet, error) {
	cs := NewContractSet()
	err := filepath.Walk(repoMod, func(p string, info os.FileInfo, err error) error {
		if err != nil {
			return nil
		}
		if info.IsDir() {
			return nil
		}
		if info.Name() == "zz_verif_contracts.go" {
			rel, _ := filepath.Rel(repoMod, filepath.Dir(p))
			return cs.ParseContractFile(p, "0chain.net/"+filepath.ToSlash(rel))
		}
		return nil
	})
	if err != nil {
		return nil, err
	}
	deps, _ := filepath.Glob("/verif/contracts/*.vc")
	for _, d := range deps {
		if err := cs.ParseContractFile(d, ""); err != nil {
			return nil, err
		}
	}
	return cs, nil
}

// ---------------------------------------------------------------- expression AST

type Expr interface{ String() string }

type (
	ELit   struct{ Kind, Val string } // int, str, bool, nil
	EIdent struct{ Name string }
	ESel   struct {
		X    Expr
		Name string
	}
	EIndex struct{ X, I Expr }
	ESlice struct{ X, Lo, Hi Expr }
	ECall  struct {
		Fn   string
		Args []Expr
	}
	EUnary struct {
		Op string
		X  Expr
	}
	EBin struct {
		Op   string
		X, Y Expr
	}
	EQuant struct {
		All    bool
		Var    string
		Type   string // optional explicit type for unbounded quantification
		Lo, Hi Expr   // nil when unbounded
		Body   Expr
		// Witness: proof hint for an existential that has to be proved; may mention locals of the
		// function (resolved at the point of the obligation). It does not change what is claimed.
		Witness Expr
	}
	ECond struct{ C, A, B Expr }
	// ESum: sumof k in lo..hi :: body  (mathematical integer sum; empty when hi <= lo)
	ESum struct {
		Var    string
		Lo, Hi Expr
		Body   Expr
	}
)

func (e *ESum) String() string {
	return fmt.Sprintf("sumof %s in %s..%s :: %s", e.Var, e.Lo, e.Hi, e.Body)
}

func (e *ELit) String() string   { return e.Val }
func (e *EIdent) String() string { return e.Name }
func (e *ESel) String() string   { return e.X.String() + "." + e.Name }
func (e *EIndex) String() string { return e.X.String() + "[" + e.I.String() + "]" }
func (e *ESlice) String() string { return e.X.String() + "[:]" }
func (e *ECall) String() string {
	var a []string
	for _, x := range e.Args {
		a = append(a, x.String())
	}
	return e.Fn + "(" + strings.Join(a, ", ") + ")"
}
func (e *EUnary) String() string { return e.Op + e.X.String() }
func (e *EBin) String() string   { return "(" + e.X.String() + " " + e.Op + " " + e.Y.String() + ")" }
func (e *EQuant) String() string {
	q := "exists"
	if e.All {
		q = "forall"
	}
	if e.Lo != nil {
		return fmt.Sprintf("%s %s in %s..%s :: %s", q, e.Var, e.Lo, e.Hi, e.Body)
	}
	return fmt.Sprintf("%s %s %s :: %s", q, e.Var, e.Type, e.Body)
}
func (e *ECond) String() string { return e.C.String() + " ? " + e.A.String() + " : " + e.B.String() }

// ---------------------------------------------------------------- lexer / parser

type tok struct {
	k string // id num str op eof
	v string
}

func lex(s string) ([]tok, error) {
	var out []tok
	i := 0
	for i < len(s) {
		c := rune(s[i])
		switch {
		case unicode.IsSpace(c):
			i++
		case unicode.IsLetter(c) || c == '_' || c == '$':
			j := i + 1
			for j < len(s) && (unicode.IsLetter(rune(s[j])) || unicode.IsDigit(rune(s[j])) || s[j] == '_' || s[j] == '$') {
				j++
			}
			out = append(out, tok{"id", s[i:j]})
			i = j
		case unicode.IsDigit(c):
			j := i + 1
			for j < len(s) && (unicode.IsDigit(rune(s[j])) || s[j] == '_' || s[j] == 'x' || (s[j] >= 'a' && s[j] <= 'f') || (s[j] >= 'A' && s[j] <= 'F')) {
				j++
			}
			out = append(out, tok{"num", strings.ReplaceAll(s[i:j], "_", "")})
			i = j
		case c == '"':
			j := i + 1
			for j < len(s) && s[j] != '"' {
				if s[j] == '\\' {
					j++
				}
				j++
			}
			if j >= len(s) {
				return nil, fmt.Errorf("unterminated string")
			}
			out = append(out, tok{"str", s[i+1 : j]})
			i = j + 1
		default:
			ops := []string{"<==>", "==>", "::", "..", "==", "!=", "<=", ">=", "&&", "||", "<<", ">>", "+", "-", "*", "/", "%", "<", ">", "!", "(", ")", "[", "]", ".", ",", ":", "?", "&", "|", "^"}
			matched := false
			for _, o := range ops {
				if strings.HasPrefix(s[i:], o) {
					out = append(out, tok{"op", o})
					i += len(o)
					matched = true
					break
				}
			}
			if !matched {
				return nil, fmt.Errorf("unexpected character %q", c)
			}
		}
	}
	out = append(out, tok{"eof", ""})
	return out, nil
}

type parser struct {
	t []tok
	p int
}

func ParseExpr(s string) (Expr, error) {
	t, err := lex(s)
	if err != nil {
		return nil, err
	}
	p := &parser{t: t}
	e, err := p.expr(0)
	if err != nil {
		return nil, err
	}
	if p.peek().k != "eof" {
		return nil, fmt.Errorf("unexpected %q", p.peek().v)
	}
	return e, nil
}

func (p *parser) peek() tok { return p.t[p.p] }
func (p *parser) next() tok { t := p.t[p.p]; p.p++; return t }
func (p *parser) accept(v string) bool {
	if p.peek().k == "op" && p.peek().v == v {
		p.p++
		return true
	}
	return false
}
func (p *parser) expect(v string) error {
	if !p.accept(v) {
		return fmt.Errorf("expected %q, got %q", v, p.peek().v)
	}
	return nil
}

var binPrec = map[string]int{"<==>": 1, "==>": 2, "||": 3, "&&": 4, "==": 5, "!=": 5, "<": 5, "<=": 5, ">": 5, ">=": 5, "in": 5,
	"+": 6, "-": 6, "|": 6, "^": 6, "*": 7, "/": 7, "%": 7, "<<": 7, ">>": 7, "&": 7}

func (p *parser) expr(minPrec int) (Expr, error) {
	lhs, err := p.unary()
	if err != nil {
		return nil, err
	}
	for {
		t := p.peek()
		op := t.v
		if !(t.k == "op" || (t.k == "id" && op == "in")) {
			break
		}
		if op == "?" && minPrec <= 0 {
			p.next()
			a, err := p.expr(1)
			if err != nil {
				return nil, err
			}
			if err := p.expect(":"); err != nil {
				return nil, err
			}
			b, err := p.expr(0)
			if err != nil {
				return nil, err
			}
			lhs = &ECond{lhs, a, b}
			continue
		}
		pr, ok := binPrec[op]
		if !ok || pr < minPrec {
			break
		}
		p.next()
		nextMin := pr + 1
		if op == "==>" { // right assoc
			nextMin = pr
		}
		rhs, err := p.expr(nextMin)
		if err != nil {
			return nil, err
		}
		lhs = &EBin{op, lhs, rhs}
	}
	return lhs, nil
}

func (p *parser) unary() (Expr, error) {
	t := p.peek()
	if t.k == "op" && (t.v == "!" || t.v == "-") {
		p.next()
		x, err := p.unary()
		if err != nil {
			return nil, err
		}
		return &EUnary{t.v, x}, nil
	}
	if t.k == "id" && t.v == "sumof" {
		p.next()
		v := p.next()
		if v.k != "id" {
			return nil, fmt.Errorf("sumof variable expected")
		}
		if in := p.next(); in.k != "id" || in.v != "in" {
			return nil, fmt.Errorf("sumof k in lo..hi :: body")
		}
		lo, err := p.expr(6)
		if err != nil {
			return nil, err
		}
		if err := p.expect(".."); err != nil {
			return nil, err
		}
		hi, err := p.expr(6)
		if err != nil {
			return nil, err
		}
		if err := p.expect("::"); err != nil {
			return nil, err
		}
		body, err := p.expr(0)
		if err != nil {
			return nil, err
		}
		return &ESum{Var: v.v, Lo: lo, Hi: hi, Body: body}, nil
	}
	if t.k == "id" && (t.v == "forall" || t.v == "exists") {
		p.next()
		v := p.next()
		if v.k != "id" {
			return nil, fmt.Errorf("quantifier variable expected")
		}
		q := &EQuant{All: t.v == "forall", Var: v.v}
		if p.peek().k == "id" && p.peek().v == "in" {
			p.next()
			lo, err := p.expr(6)
			if err != nil {
				return nil, err
			}
			if err := p.expect(".."); err != nil {
				return nil, err
			}
			hi, err := p.expr(6)
			if err != nil {
				return nil, err
			}
			q.Lo, q.Hi = lo, hi
			if p.peek().k == "id" && p.peek().v == "witness" {
				p.next()
				w, err := p.expr(6)
				if err != nil {
					return nil, err
				}
				q.Witness = w
			}
		} else {
			// type: sequence of tokens until '::'
			var ty []string
			for !(p.peek().k == "op" && p.peek().v == "::") && p.peek().k != "eof" {
				ty = append(ty, p.next().v)
			}
			q.Type = strings.Join(ty, "")
		}
		if err := p.expect("::"); err != nil {
			return nil, err
		}
		body, err := p.expr(0)
		if err != nil {
			return nil, err
		}
		q.Body = body
		return q, nil
	}
	return p.postfix()
}

func (p *parser) postfix() (Expr, error) {
	var e Expr
	t := p.next()
	switch t.k {
	case "num":
		e = &ELit{"int", t.v}
	case "str":
		e = &ELit{"str", t.v}
	case "id":
		switch t.v {
		case "true", "false":
			e = &ELit{"bool", t.v}
		case "nil":
			e = &ELit{"nil", "nil"}
		default:
			e = &EIdent{t.v}
		}
	case "op":
		if t.v == "(" {
			x, err := p.expr(0)
			if err != nil {
				return nil, err
			}
			if err := p.expect(")"); err != nil {
				return nil, err
			}
			e = x
		} else {
			return nil, fmt.Errorf("unexpected %q", t.v)
		}
	default:
		return nil, fmt.Errorf("unexpected end of expression")
	}
	for {
		switch {
		case p.accept("."):
			n := p.next()
			if n.k != "id" {
				return nil, fmt.Errorf("field name expected after '.'")
			}
			e = &ESel{e, n.v}
		case p.accept("["):
			if p.accept(":") {
				hi, err := p.expr(0)
				if err != nil {
					return nil, err
				}
				if err := p.expect("]"); err != nil {
					return nil, err
				}
				e = &ESlice{e, nil, hi}
				continue
			}
			if p.accept("*") {
				if err := p.expect("]"); err != nil {
					return nil, err
				}
				e = &EIndex{e, &EIdent{"*"}}
				continue
			}
			i, err := p.expr(0)
			if err != nil {
				return nil, err
			}
			if p.accept(":") {
				var hi Expr
				if !(p.peek().k == "op" && p.peek().v == "]") {
					hi, err = p.expr(0)
					if err != nil {
						return nil, err
					}
				}
				if err := p.expect("]"); err != nil {
					return nil, err
				}
				e = &ESlice{e, i, hi}
				continue
			}
			if err := p.expect("]"); err != nil {
				return nil, err
			}
			e = &EIndex{e, i}
		case p.peek().k == "op" && p.peek().v == "(":
			id, ok := e.(*EIdent)
			if !ok {
				// pkg.Func(...) style: flatten selector to name
				if s, ok2 := e.(*ESel); ok2 {
					if x, ok3 := s.X.(*EIdent); ok3 {
						id = &EIdent{x.Name + "." + s.Name}
						ok = true
					}
				}
				if !ok {
					return nil, fmt.Errorf("call of non-identifier")
				}
			}
			p.next()
			var args []Expr
			for !p.accept(")") {
				a, err := p.expr(0)
				if err != nil {
					return nil, err
				}
				args = append(args, a)
				if !p.accept(",") {
					if err := p.expect(")"); err != nil {
						return nil, err
					}
					break
				}
			}
			e = &ECall{id.Name, args}
		default:
			return e, nil
		}
	}
}
