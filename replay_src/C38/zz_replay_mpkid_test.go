package minersc

// Replay for obligation
//   (*MinerSmartContract).contributeMpk/at-call@updateMinersMPKs[stored-under-the-sender]
// (C38: "public keys ... are accepted ... once per participating miner").
//
// contributeMpk builds  mpk := &block.MPK{ID: t.ClientID}  and then json-decodes the transaction
// input INTO that object. block.MPK has an exported ID field, so an "ID" member in the input replaces
// the sender's id: participant A can store a key under participant B's id (and under C's, D's ... -
// as many times as there are participants), and B's own contribution is then refused with
// "already have mpk for miner".
//
// Uses the state stub and helpers of zz_replay_test.go (same directory, same overlay).

import (
	"testing"

	"0chain.net/chaincore/block"
	"github.com/0chain/common/core/logging"
	"go.uber.org/zap"
)

func TestVerifReplay_C38_mpk_stored_under_foreign_id(t *testing.T) {
	logging.Logger = zap.NewNop()

	var (
		st  = newC38State(100)
		msc = &MinerSmartContract{}
		a   = newC38Node(t, "A")
		b   = newC38Node(t, "B")
		gn  = &GlobalNode{}
	)
	dmn := NewDKGMinerNodes()
	dmn.T, dmn.K, dmn.N = 2, 2, 2
	for _, m := range []*c38Node{a, b} {
		sn := &SimpleNode{PublicKey: m.scheme.GetPublicKey(), ShortName: m.name}
		sn.ID = m.id
		dmn.SimpleNodes[m.id] = sn
	}
	if err := updateDKGMinersList(st, dmn); err != nil {
		t.Fatalf("store dkg miners: %v", err)
	}
	c38SetPhase(t, st, Contribute)

	// A sends a key whose payload names B
	forged := &block.MPK{ID: b.id, Mpk: []string{"aa", "bb"}}
	_, err := msc.contributeMpk(c38Txn(a.id), forged.Encode(), gn, st)
	mpks, gerr := getMinersMPKs(st)
	if err == nil {
		if gerr != nil {
			t.Fatalf("contributeMpk succeeded but nothing stored: %v", gerr)
		}
		_, underA := mpks.Mpks[a.id]
		_, underB := mpks.Mpks[b.id]
		if underB || !underA {
			// B's own contribution
			own := &block.MPK{ID: b.id, Mpk: []string{"cc", "dd"}}
			_, berr := msc.contributeMpk(c38Txn(b.id), own.Encode(), gn, st)
			t.Fatalf("contributeMpk stored sender A's key under a foreign id: stored under A: %v, under B: %v; "+
				"B's own contribution afterwards: %v", underA, underB, berr)
		}
		return // stored under the sender: fine
	}
	// rejected: nothing may be stored
	if gerr == nil && len(mpks.Mpks) != 0 {
		t.Fatalf("contributeMpk failed (%v) but stored %d keys", err, len(mpks.Mpks))
	}
	t.Logf("foreign id rejected: %v", err)
}
