package vestingsc

// Replays for property C16.
import (
	"testing"

	"github.com/0chain/common/core/currency"
)

// obligation (*destination).unlock/post[vested-le-amount]#2 and post[within-left]#1:
// float64 rounding of left*1.0 for left > 2^53 yields more than left.
func TestVerifReplay_C16_unlock_never_exceeds_amount(t *testing.T) {
	d := &destination{ID: "d", Amount: (1 << 53) + 3, Vested: 0, Move: 0}
	amount, err := d.unlock(100, 100, false) // now == end: ratio 1.0
	if err != nil {
		t.Fatal(err)
	}
	if amount > d.Amount {
		t.Errorf("unlocked %d for a destination with amount %d", amount, d.Amount)
	}
	if d.Vested > d.Amount {
		t.Errorf("vested %d exceeds assigned amount %d", d.Vested, d.Amount)
	}
}

// obligation (*vestingPool).excess/post[no-wrap]#1: balance below what is still owed.
func TestVerifReplay_C16_excess_no_wrap(t *testing.T) {
	vp := newVestingPool()
	vp.Balance = 5
	vp.Destinations = destinations{&destination{ID: "d", Amount: 10}}
	over, err := vp.excess()
	if err == nil && over > vp.Balance {
		t.Errorf("excess of a pool holding %d with 10 still owed is %d", vp.Balance, over)
	}
	_ = currency.Coin(0)
}
