package main

import (
	"fmt"
	"go/types"
)

// Sort of a scalar leaf.
type Sort int

const (
	SInt Sort = iota
	SBool
	SStr
	SF64
	SPtr
	SSlice
	SIface
	SRef // map / chan / func identities
	nSorts
)

var sortSMT = [...]string{"Int", "Bool", "Str", "F64", "Ptr", "Slice", "Iface", "Int"}
var sortTag = [...]string{"I", "B", "S", "F", "P", "L", "A", "R"}
var sortZero = [...]string{"0", "false", "str_empty", "f64_zero", "nilptr", "nilslice", "niliface", "0"}

func (s Sort) SMT() string  { return sortSMT[s] }
func (s Sort) Zero() string { return sortZero[s] }

// Leaf is one scalar slot of a flattened type.
type Leaf struct {
	Sort Sort
	T    types.Type // the Go type of the scalar (for range constraints)
	Path string
}

type Layout struct {
	cache map[types.Type][]Leaf
}

func NewLayout() *Layout { return &Layout{cache: map[types.Type][]Leaf{}} }

// Leaves flattens a type into scalar slots.
func (L *Layout) Leaves(t types.Type) []Leaf {
	if r, ok := L.cache[t]; ok {
		return r
	}
	var out []Leaf
	switch u := t.Underlying().(type) {
	case *types.Basic:
		info := u.Info()
		switch {
		case info&types.IsBoolean != 0:
			out = []Leaf{{SBool, t, ""}}
		case info&types.IsString != 0:
			out = []Leaf{{SStr, t, ""}}
		case info&types.IsFloat != 0:
			out = []Leaf{{SF64, t, ""}}
		case info&types.IsComplex != 0:
			out = []Leaf{{SF64, t, ".re"}, {SF64, t, ".im"}}
		case u.Kind() == types.UnsafePointer:
			out = []Leaf{{SPtr, t, ""}}
		case u.Kind() == types.UntypedNil:
			out = []Leaf{{SPtr, t, ""}}
		default:
			out = []Leaf{{SInt, t, ""}}
		}
	case *types.Pointer:
		out = []Leaf{{SPtr, t, ""}}
	case *types.Slice:
		out = []Leaf{{SSlice, t, ""}}
	case *types.Map, *types.Chan, *types.Signature:
		out = []Leaf{{SRef, t, ""}}
	case *types.Interface:
		out = []Leaf{{SIface, t, ""}}
	case *types.Struct:
		for i := 0; i < u.NumFields(); i++ {
			f := u.Field(i)
			for _, l := range L.Leaves(f.Type()) {
				out = append(out, Leaf{l.Sort, l.T, "." + f.Name() + l.Path})
			}
		}
		if len(out) == 0 {
			// empty struct still occupies nothing
		}
	case *types.Array:
		// array elements are laid out along the idx dimension: the array occupies the slots of
		// one element. Array *values* cannot be flattened; loads/stores of whole arrays are
		// abstracted by the translator (hasArrayLeaf).
		for _, l := range L.Leaves(u.Elem()) {
			out = append(out, Leaf{l.Sort, l.T, "[*]" + l.Path})
		}
	case *types.Tuple:
		for i := 0; i < u.Len(); i++ {
			for _, l := range L.Leaves(u.At(i).Type()) {
				out = append(out, Leaf{l.Sort, l.T, fmt.Sprintf("#%d%s", i, l.Path)})
			}
		}
	default:
		out = []Leaf{{SRef, t, "?"}}
	}
	L.cache[t] = out
	return out
}

// FieldOffset returns the slot offset and leaf count of field i of struct type st.
func (L *Layout) FieldOffset(st *types.Struct, i int) (off, n int) {
	for j := 0; j < i; j++ {
		off += len(L.Leaves(st.Field(j).Type()))
	}
	return off, len(L.Leaves(st.Field(i).Type()))
}

// intRange returns lo, hi (as SMT numerals) for integer types; ok=false for non-integers.
func intRange(t types.Type) (lo, hi string, ok bool) {
	b, isB := t.Underlying().(*types.Basic)
	if !isB || b.Info()&types.IsInteger == 0 {
		return "", "", false
	}
	switch b.Kind() {
	case types.Int8:
		return "(- 128)", "127", true
	case types.Int16:
		return "(- 32768)", "32767", true
	case types.Int32:
		return "(- 2147483648)", "2147483647", true
	case types.Int, types.Int64, types.UntypedInt, types.UntypedRune:
		return "(- 9223372036854775808)", "9223372036854775807", true
	case types.Uint8:
		return "0", "255", true
	case types.Uint16:
		return "0", "65535", true
	case types.Uint32:
		return "0", "4294967295", true
	case types.Uint, types.Uint64, types.Uintptr:
		return "0", "18446744073709551615", true
	}
	return "", "", false
}

func intBits(t types.Type) (bits int, signed bool) {
	b, isB := t.Underlying().(*types.Basic)
	if !isB {
		return 64, true
	}
	switch b.Kind() {
	case types.Int8:
		return 8, true
	case types.Int16:
		return 16, true
	case types.Int32:
		return 32, true
	case types.Int, types.Int64, types.UntypedInt, types.UntypedRune:
		return 64, true
	case types.Uint8:
		return 8, false
	case types.Uint16:
		return 16, false
	case types.Uint32:
		return 32, false
	case types.Uint, types.Uint64, types.Uintptr:
		return 64, false
	}
	return 64, true
}

func isInteger(t types.Type) bool {
	b, ok := t.Underlying().(*types.Basic)
	return ok && b.Info()&types.IsInteger != 0
}
func isFloat(t types.Type) bool {
	b, ok := t.Underlying().(*types.Basic)
	return ok && b.Info()&types.IsFloat != 0
}
func isString(t types.Type) bool {
	b, ok := t.Underlying().(*types.Basic)
	return ok && b.Info()&types.IsString != 0
}
func isBool(t types.Type) bool {
	b, ok := t.Underlying().(*types.Basic)
	return ok && b.Info()&types.IsBoolean != 0
}
