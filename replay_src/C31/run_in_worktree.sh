#!/bin/sh
# usage: sh run.sh /tmp/wt/H31
# Runs TestVerifReplay_C31_forged_attached_tickets (package miner) through a
# private go build overlay. Exit status is non-zero iff the test fails (or
# cannot be built).
set -u

WT="${1:-/tmp/wt/H31}"
SEED="$(cd "$(dirname "$0")" && pwd)"
MOD="$WT/code/go/0chain.net"
SHIM="${BUILDSHIM:-/tmp/buildshim}"

export GOPROXY=off GOSUMDB=off GOTOOLCHAIN=local GOFLAGS=

TMP="$(mktemp -d /tmp/c31_overlay.XXXXXX)" || exit 2
trap 'rm -rf "$TMP"' EXIT INT TERM

printf 'package miner\n' > "$TMP/stub_test.go"

OV="$TMP/overlay.json"
{
	printf '{\n "Replace": {\n'
	# (a) every entry of the RocksDB binding shim overlay
	sed -n 's/^[[:space:]]*\("[^"]*"[[:space:]]*:[[:space:]]*"[^"]*"\),\{0,1\}[[:space:]]*$/  \1,/p' "$SHIM/overlay.json" | grep -v '"Replace"'
	# (b) pre-existing tests of package miner do not compile (mocks missing)
	for f in "$MOD"/miner/*_test.go; do
		[ -e "$f" ] || continue
		[ "$(basename "$f")" = "zz_replay_test.go" ] && continue
		printf '  "%s": "%s",\n' "$f" "$TMP/stub_test.go"
	done
	# (c) the new test
	printf '  "%s": "%s"\n' "$MOD/miner/zz_replay_test.go" "$SEED/zz_replay_test.go"
	printf ' }\n}\n'
} > "$OV"

cd "$MOD" || exit 2
go test -overlay "$OV" -vet=off -count=1 -timeout 120s -v \
	-run 'TestVerifReplay_C31_forged_attached_tickets$' ./miner/
rc=$?
exit $rc
