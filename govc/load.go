package main

import (
	"fmt"
	"go/ast"
	"go/types"
	"os"
	"os/exec"
	"path/filepath"
	"sort"
	"strings"

	"golang.org/x/tools/go/packages"
	"golang.org/x/tools/go/ssa"
	"golang.org/x/tools/go/ssa/ssautil"
)

// The tree under verification and the place results go to. Registered commands use the defaults (/repo,
// /verif); the self-test sets GOVC_REPO / GOVC_SCRATCH to run mutants on a scratch copy next to other work.
var repoRoot = envOr("GOVC_REPO", "/repo")
var repoMod = repoRoot + "/code/go/0chain.net"
var outRoot = envOr("GOVC_SCRATCH", "/verif")

type Program struct {
	Pkgs    []*packages.Package
	Prog    *ssa.Program
	SSAPkgs []*ssa.Package
	byPath  map[string]*packages.Package
	ssaBy   map[string]*ssa.Package
	LoadMS  int64
	nested  map[types.Type]bool
	arrayElems map[string]bool
	elemTypes    map[string]types.Type // element types of every slice / array type of the loaded packages
	namedStructs []*types.Named        // every (non-generic) named struct type of the loaded packages
	nonNil    map[*ssa.Global]bool
	nonNilDone map[*ssa.Package]bool
}

func shimOverlay() string {
	p := "/verif/work/shim/overlay.json"
	if _, err := os.Stat(p); err != nil {
		if _, err := GenShim("/verif/work/shim"); err != nil {
			fmt.Fprintln(os.Stderr, "shim:", err)
			os.Exit(2)
		}
	}
	return p
}

// moduleDeps lists the packages of 0chain.net and github.com/0chain/common that the patterns
// depend on, so that callees in those packages have bodies (for inlining) too.
func moduleDeps(patterns []string) []string {
	args := append([]string{"list", "-overlay", shimOverlay(), "-tags", "verif", "-deps"}, patterns...)
	cmd := exec.Command("go", args...)
	cmd.Dir = repoMod
	cmd.Env = append(os.Environ(), "GOFLAGS=", "GOPROXY=off", "GOSUMDB=off", "GOTOOLCHAIN=local", "GOWORK=")
	out, err := cmd.Output()
	if err != nil {
		return patterns
	}
	seen := map[string]bool{}
	var res []string
	for _, l := range strings.Split(string(out), "\n") {
		l = strings.TrimSpace(l)
		if (strings.HasPrefix(l, "0chain.net/") || strings.HasPrefix(l, "github.com/0chain/common/")) && !seen[l] {
			seen[l] = true
			res = append(res, l)
		}
	}
	for _, p := range patterns {
		if !seen[p] {
			res = append(res, p)
		}
	}
	return res
}

// LoadProgram loads the given package patterns from /repo's working tree with the
// grocksdb shim and -tags=verif, full syntax for the named packages only.
func LoadProgram(patterns []string, extraOverlay map[string][]byte) (*Program, error) {
	patterns = moduleDeps(patterns)
	env := append(os.Environ(), "GOFLAGS=", "GOPROXY=off", "GOSUMDB=off", "GOTOOLCHAIN=local", "GOWORK=")
	cfg := &packages.Config{
		Mode:       packages.LoadSyntax | packages.NeedModule,
		Dir:        repoMod,
		Env:        env,
		BuildFlags: []string{"-overlay=" + shimOverlay(), "-tags=verif"},
		Tests:      false,
		Overlay:    extraOverlay,
	}
	pkgs, err := packages.Load(cfg, patterns...)
	if err != nil {
		return nil, err
	}
	var errs []string
	packages.Visit(pkgs, nil, func(p *packages.Package) {
		for _, e := range p.Errors {
			errs = append(errs, e.Error())
		}
	})
	if len(errs) > 0 {
		if len(errs) > 10 {
			errs = errs[:10]
		}
		return nil, fmt.Errorf("load errors:\n%s", strings.Join(errs, "\n"))
	}
	prog, spkgs := ssautil.Packages(pkgs, ssa.GlobalDebug|ssa.InstantiateGenerics)
	for _, sp := range spkgs {
		if sp != nil {
			sp.Build()
		}
	}
	P := &Program{Pkgs: pkgs, Prog: prog, SSAPkgs: spkgs, byPath: map[string]*packages.Package{}, ssaBy: map[string]*ssa.Package{}}
	for i, p := range pkgs {
		P.byPath[p.PkgPath] = p
		if spkgs[i] != nil {
			P.ssaBy[p.PkgPath] = spkgs[i]
		}
	}
	return P, nil
}

// FindFunc resolves "pkgpath.Func" or "pkgpath.(*T).Method" / "pkgpath.(T).Method" /
// "pkgpath.Func$1" (anonymous function).
func (P *Program) FindFunc(pkgPath, name string) *ssa.Function {
	sp := P.ssaBy[pkgPath]
	if sp == nil {
		return nil
	}
	anon := ""
	if i := strings.Index(name, "$"); i >= 0 {
		anon = name[i:]
		name = name[:i]
	}
	var fn *ssa.Function
	if strings.HasPrefix(name, "(") {
		// (*T).M or (T).M
		end := strings.Index(name, ").")
		if end < 0 {
			return nil
		}
		tn := name[1:end]
		mn := name[end+2:]
		ptr := strings.HasPrefix(tn, "*")
		tn = strings.TrimPrefix(tn, "*")
		obj := sp.Pkg.Scope().Lookup(tn)
		if obj == nil {
			return nil
		}
		var T types.Type = obj.Type()
		if ptr {
			T = types.NewPointer(T)
		}
		ms := P.Prog.MethodSets.MethodSet(T)
		for i := 0; i < ms.Len(); i++ {
			if ms.At(i).Obj().Name() == mn {
				fn = P.Prog.MethodValue(ms.At(i))
				break
			}
		}
	} else {
		fn = sp.Func(name)
	}
	if fn == nil {
		return nil
	}
	if anon != "" {
		for _, a := range fn.AnonFuncs {
			if strings.HasSuffix(a.Name(), anon) {
				return a
			}
		}
		return nil
	}
	return fn
}

// funcKey is the canonical textual name used in contracts: "pkgpath.(*T).M" or "pkgpath.F".
func funcKey(fn *ssa.Function) string {
	if fn == nil {
		return "<nil>"
	}
	if fn.Parent() != nil {
		return funcKey(fn.Parent()) + "$" + strings.TrimPrefix(fn.Name(), fn.Parent().Name()+"$")
	}
	pk := ""
	if fn.Pkg != nil {
		pk = fn.Pkg.Pkg.Path()
	} else if fn.Object() != nil && fn.Object().Pkg() != nil {
		pk = fn.Object().Pkg().Path()
	}
	if recv := fn.Signature.Recv(); recv != nil {
		t := recv.Type()
		ptr := ""
		if p, ok := t.(*types.Pointer); ok {
			ptr = "*"
			t = p.Elem()
		}
		tn := t.String()
		if n, ok := t.(*types.Named); ok {
			tn = n.Obj().Name()
			if n.Obj().Pkg() != nil {
				pk = n.Obj().Pkg().Path()
			}
		}
		return fmt.Sprintf("%s.(%s%s).%s", pk, ptr, tn, fn.Name())
	}
	return pk + "." + fn.Name()
}

// loopStmts returns the for/range statements of a function body in source pre-order,
// not descending into function literals.
func loopStmts(body ast.Node) []ast.Stmt {
	var out []ast.Stmt
	if body == nil {
		return nil
	}
	ast.Inspect(body, func(n ast.Node) bool {
		switch x := n.(type) {
		case *ast.FuncLit:
			return x == body
		case *ast.ForStmt:
			out = append(out, x)
		case *ast.RangeStmt:
			out = append(out, x)
		}
		return true
	})
	return out
}

func sortedKeys[V any](m map[string]V) []string {
	ks := make([]string, 0, len(m))
	for k := range m {
		ks = append(ks, k)
	}
	sort.Strings(ks)
	return ks
}

func relRepo(p string) string {
	if r, err := filepath.Rel(repoRoot, p); err == nil && !strings.HasPrefix(r, "..") {
		return r
	}
	return p
}
