package main

import (
	"go/types"
	"os"

	"golang.org/x/tools/go/ssa"
)

// readsOnly: the body of f (a callee that is inlined at its call sites) has no effect on memory that
// existed before the call: no stores except into its own non-escaping locals, no map updates, no
// goroutines / channel operations / defers, and calls only of builtins, of callees whose contract or
// allowlist entry says they are pure, or (two levels deep) of other read-only inlinable callees.
func (vc *VC) readsOnly(f *ssa.Function, depth int) bool {
	if depth > 2 || len(f.Blocks) == 0 || os.Getenv("GOVC_NO_READSONLY") != "" {
		return false
	}
	for _, b := range f.Blocks {
		for _, in := range b.Instrs {
			switch x := in.(type) {
			case *ssa.Store:
				a, ok := x.Addr.(*ssa.Alloc)
				if !ok || a.Heap {
					if fa, isFA := x.Addr.(*ssa.FieldAddr); isFA {
						if a2, ok2 := fa.X.(*ssa.Alloc); ok2 && !a2.Heap {
							continue
						}
					}
					return false
				}
			case *ssa.MapUpdate, *ssa.Go, *ssa.Send, *ssa.Select, *ssa.Defer, *ssa.RunDefers, *ssa.Panic:
				return false
			case ssa.CallInstruction:
				cc := x.Common()
				if bi, ok := cc.Value.(*ssa.Builtin); ok {
					switch bi.Name() {
					case "len", "cap", "min", "max":
						continue
					}
					return false
				}
				if vc.callIsPure(cc) {
					continue
				}
				if callee := cc.StaticCallee(); callee != nil && !cc.IsInvoke() && vc.canInline(callee) && vc.readsOnly(callee, depth+1) {
					continue
				}
				return false
			}
		}
	}
	return true
}

// ---------------------------------------------------------------- private cells across loops
//
// A local variable that lives in a heap cell only because a closure captures it (Go closures capture
// by reference) would lose its value whenever a loop is havocked coarsely (a call of the closure in
// the loop body has unknown effects as far as the loop-target computation is concerned). If
//   - the cell's address is used only by loads/stores in this function and as a binding of closures
//     that are themselves only ever called (never stored, passed or returned), and
//   - no store to the cell happens inside the loop body, and none of those closures stores to it,
// then nothing executed by the loop can change the cell: it keeps its value across the loop.

// cellChangedBy reports whether the cell x (an Alloc, or a FreeVar inside a closure) may be written
// by code in `body` (nil: anywhere in the enclosing function counts) or may become reachable by
// code other than this function and closures that are only called.
func cellChangedBy(x ssa.Value, body map[*ssa.BasicBlock]bool, depth int, storesMatter bool) bool {
	if depth > 3 {
		return true
	}
	refs := x.Referrers()
	if refs == nil {
		return true
	}
	inBody := func(in ssa.Instruction) bool { return body == nil || body[in.Block()] }
	for _, r := range *refs {
		switch u := r.(type) {
		case *ssa.DebugRef:
			continue
		case *ssa.UnOp:
			continue // load
		case *ssa.Store:
			if u.Val == x {
				return true // the address itself is stored somewhere
			}
			if storesMatter && inBody(u) {
				return true
			}
			continue
		case *ssa.FieldAddr, *ssa.IndexAddr:
			if cellChangedBy(u.(ssa.Value), body, depth+1, storesMatter) {
				return true
			}
			continue
		case *ssa.MakeClosure:
			// the closure value must only be called
			concurrent := false
			if crefs := u.Referrers(); crefs != nil {
				for _, cr := range *crefs {
					switch cu := cr.(type) {
					case *ssa.DebugRef:
						continue
					case *ssa.Call:
						if cu.Call.Value != ssa.Value(u) {
							return true // passed as an argument
						}
						for _, a := range cu.Call.Args {
							if a == ssa.Value(u) {
								return true
							}
						}
						continue
					case *ssa.Defer:
						if cu.Call.Value != ssa.Value(u) {
							return true
						}
						continue
					case *ssa.Go:
						// `go func() {...}()`: the literal runs concurrently; it shares the cell only
						// if it (or anything it hands the address to) can write it - checked below with
						// every store in the literal counting, whenever it runs
						if cu.Call.Value != ssa.Value(u) {
							return true
						}
						for _, a := range cu.Call.Args {
							if a == ssa.Value(u) {
								return true
							}
						}
						concurrent = true
						continue
					default:
						return true
					}
				}
			} else {
				return true
			}
			fn, ok := u.Fn.(*ssa.Function)
			if !ok {
				return true
			}
			for i, b := range u.Bindings {
				if b != x || i >= len(fn.FreeVars) {
					continue
				}
				// inside the closure any store counts (it may be called from the loop)
				if cellChangedBy(fn.FreeVars[i], nil, depth+1, storesMatter || concurrent) {
					return true
				}
			}
			continue
		default:
			return true
		}
	}
	return false
}

// keepPrivateCells: after the loop havoc, cells that nothing in the loop can write keep their contents.
func (vc *VC) keepPrivateCells(li *loopInfo, h *Heap, pre Heap) {
	for _, b := range vc.fn.Blocks {
		if li.body[b] {
			continue // allocated per iteration
		}
		for _, in := range b.Instrs {
			a, ok := in.(*ssa.Alloc)
			if !ok {
				continue
			}
			v, have := vc.vals[a]
			if !have || len(v) != 1 {
				continue
			}
			if cellChangedBy(a, li.body, 0, true) {
				continue
			}
			obj := ptrAddr(v[0]).Obj
			et := a.Type().Underlying().(*types.Pointer).Elem()
			done := map[Sort]bool{}
			for _, l := range vc.L.Leaves(et) {
				if done[l.Sort] {
					continue
				}
				done[l.Sort] = true
				if h.H[l.Sort] != pre.H[l.Sort] {
					vc.assume(eq(sel(h.H[l.Sort], obj), sel(pre.H[l.Sort], obj)))
				}
			}
		}
	}
}

// keepUnsharedCells: after a call of unknown code was havocked (havocCall), the cells of this function
// and of the functions it is inlined into (closures are inlined at their call sites) whose address is
// known only to those functions and to closures that are only ever called keep their contents: the
// unknown callee has no way to reach them.
func (vc *VC) keepUnsharedCells(h *Heap, pre Heap, at ssa.Instruction) {
	cur, site := vc, at
	for cur != nil && site != nil {
		for _, b := range cur.fn.Blocks {
			if sb := site.Block(); sb == nil || !(b == sb || b.Dominates(sb)) {
				continue
			}
			for _, in := range b.Instrs {
				if in == site {
					break
				}
				a, ok := in.(*ssa.Alloc)
				if !ok {
					continue
				}
				v, have := cur.vals[a]
				if !have || len(v) != 1 {
					continue
				}
				if cellChangedBy(a, nil, 0, false) {
					continue
				}
				obj := ptrAddr(v[0]).Obj
				et := a.Type().Underlying().(*types.Pointer).Elem()
				done := map[Sort]bool{}
				for _, l := range vc.L.Leaves(et) {
					if done[l.Sort] {
						continue
					}
					done[l.Sort] = true
					if h.H[l.Sort] != pre.H[l.Sort] {
						vc.assume(eq(sel(h.H[l.Sort], obj), sel(pre.H[l.Sort], obj)))
					}
				}
			}
		}
		cur, site = cur.parent, cur.callSite
	}
}

// perIterationLocal: the address is (a field / element of) a non-escaping local variable that is
// declared inside the loop body. go/ssa proves such an Alloc non-escaping (Heap == false), so each
// iteration works on its own new object that nothing outlives: stores to it are not loop effects.
func perIterationLocal(addr ssa.Value, li *loopInfo) bool {
	if os.Getenv("GOVC_NO_PERITER") != "" {
		return false
	}
	for d := 0; d < 6; d++ {
		switch x := addr.(type) {
		case *ssa.Alloc:
			return !x.Heap && li.body[x.Block()]
		case *ssa.FieldAddr:
			addr = x.X
		case *ssa.IndexAddr:
			if _, isP := x.X.Type().Underlying().(*types.Pointer); !isP {
				return false // element of a slice: the backing array is another object
			}
			addr = x.X
		default:
			return false
		}
	}
	return false
}

// loopMayUpdateLocalGhosts: does the loop body contain a call that an `at-call <callee> ghost ...`
// clause of the contract under verification is attached to? With `at-call-inlined` the clauses also
// apply inside inlined callees and closures, so any call that is not by contract counts.
func (vc *VC) loopMayUpdateLocalGhosts(li *loopInfo) bool {
	r := vc.root()
	if r.ct == nil || len(r.ct.AtCallGhost) == 0 {
		return false
	}
	for b := range li.body {
		for _, in := range b.Instrs {
			ci, ok := in.(ssa.CallInstruction)
			if !ok {
				continue
			}
			cc := ci.Common()
			if _, isB := cc.Value.(*ssa.Builtin); isB {
				continue
			}
			short := ""
			if f := cc.StaticCallee(); f != nil {
				short = f.Name()
			} else if cc.IsInvoke() {
				short = cc.Method.Name()
			}
			if short != "" {
				if _, hit := r.ct.AtCallGhost[short]; hit {
					return true
				}
				for k := range r.ct.AtCallGhost {
					if i := len(k) - len(short); i > 0 && k[i-1] == '.' && k[i:] == short {
						return true // Type.Method form
					}
				}
			}
			if r.ct.Flags["at-call-inlined"] {
				if _, _, _, byContract := vc.lookupContract(cc); !byContract {
					return true
				}
			}
		}
	}
	return false
}
