package storagesc

// Replay of obligation (*StorageSmartContract).updateSettings/at-call@InsertTrieNode[config-validated-when-saved]
// (the save reached through saveConfig, config.go), property C48: once the "demeter" hard fork is
// active, update_settings writes the changed configuration to state right away - without the
// Config.validate() that commit_settings_changes performs. The owner's {"validator_reward": "5"}
// (validate() demands [0; 1]) is accepted and stored.
import (
	"testing"

	"0chain.net/chaincore/block"
	cstate "0chain.net/chaincore/chain/state"
	"0chain.net/chaincore/transaction"
	"github.com/0chain/common/core/logging"
	"github.com/0chain/common/core/util"
	"go.uber.org/zap"
)

type c48Ctx struct {
	cstate.StateContextI
	stored *Config
	saved  *Config
}

func (c *c48Ctx) GetTrieNode(k string, v util.MPTSerializable) error {
	switch x := v.(type) {
	case *Config:
		*x = *c.stored
		return nil
	case *cstate.HardFork:
		*x = *cstate.NewHardFork("demeter", 5) // activated at round 5
		return nil
	}
	return util.ErrValueNotPresent // no pending setting changes
}
func (c *c48Ctx) InsertTrieNode(k string, v util.MPTSerializable) (string, error) {
	if conf, ok := v.(*Config); ok {
		c.saved = conf
	}
	return k, nil
}
func (c *c48Ctx) GetBlock() *block.Block {
	b := &block.Block{}
	b.Round = 100
	return b
}

func TestVerifReplay_C48_storage_settings_validated_before_save(t *testing.T) {
	logging.Logger = zap.NewNop()
	base := newConfig()
	base.OwnerId = "owner"
	base.ValidatorReward = 0.025
	ctx := &c48Ctx{stored: base}
	ssc := &StorageSmartContract{}
	txn := &transaction.Transaction{ClientID: "owner"}
	_, err := ssc.updateSettings(txn, []byte(`{"fields":{"validator_reward":"5"}}`), ctx)
	if err != nil {
		return // rejected: fine
	}
	if ctx.saved != nil && (ctx.saved.ValidatorReward < 0 || ctx.saved.ValidatorReward > 1) {
		t.Fatalf("update_settings accepted and stored validator_reward = %v, which Config.validate() rejects (not in [0; 1])",
			ctx.saved.ValidatorReward)
	}
}
