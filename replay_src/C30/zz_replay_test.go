package transaction

// Replay of obligations (*Transaction).HashData/binds[t.Fee] and binds[t.TransactionType]
// (property C30): two transactions that differ only in the fee / only in the type have the same
// hash data, hence the same hash, hence the same valid signature.
import "testing"

func replayTxn() *Transaction {
	t := &Transaction{}
	t.ClientID = "c1"
	t.ToClientID = "c2"
	t.CreationDate = 1700000000
	t.Nonce = 7
	t.Value = 100
	t.TransactionData = "data"
	t.Fee = 1
	t.TransactionType = TxnTypeSend
	return t
}

func TestVerifReplay_C30_fee_not_bound(t *testing.T) {
	a, b := replayTxn(), replayTxn()
	b.Fee = 1000000
	if a.ComputeHash() == b.ComputeHash() {
		t.Fatalf("transactions with fee %d and fee %d have the same hash %s", a.Fee, b.Fee, a.ComputeHash())
	}
}

func TestVerifReplay_C30_type_not_bound(t *testing.T) {
	a, b := replayTxn(), replayTxn()
	b.TransactionType = TxnTypeSmartContract
	if a.ComputeHash() == b.ComputeHash() {
		t.Fatalf("transactions of type %d and type %d have the same hash %s", a.TransactionType, b.TransactionType, a.ComputeHash())
	}
}
