package blockdb

// Replay of obligation (*fixedKeyArrayIndex).GetOffset/loop#1/decreases (property C26):
// solver model lo == hi, bytes.Compare != 0  =>  one record, lookup of an absent key.
import (
	"testing"
	"time"
)

func TestVerifReplay_C26_GetOffset_terminates(t *testing.T) {
	fkai := newFixedKeyArrayIndex(1)
	// one record: [klen=1]['b'][8 bytes offset]
	fkai.buffer = []byte{1, 'b', 7, 0, 0, 0, 0, 0, 0, 0}
	for _, k := range []Key{"a", "c"} {
		done := make(chan error, 1)
		go func() { _, err := fkai.GetOffset(k); done <- err }()
		select {
		case err := <-done:
			if err != ErrKeyNotFound {
				t.Fatalf("lookup of absent key %q: want ErrKeyNotFound, got %v", k, err)
			}
		case <-time.After(3 * time.Second):
			t.Fatalf("lookup of absent key %q does not return (binary search interval does not shrink when lo == hi)", k)
		}
	}
}
