package main

import (
	"go/types"
	"sort"
)

// Type-based separation for interior pointers.
//
// A pointer p of static type *T where T is a named struct that occurs by value inside other
// types may point into any object whose dynamic type contains a T by value (or is T). We
// record that as has_T(dyntype(obj)). For every type id U mentioned in the VC the truth value
// of has_T(id_U) is computed from the Go type structure and asserted. This gives, e.g., that a
// *sync.RWMutex never aliases an []int64 backing array or a struct without a mutex field.

func containsByValue(u, t types.Type, depth int) bool {
	if depth > 12 {
		return true // conservative
	}
	if types.Identical(u, t) {
		return true
	}
	switch x := u.Underlying().(type) {
	case *types.Struct:
		for i := 0; i < x.NumFields(); i++ {
			if containsByValue(x.Field(i).Type(), t, depth+1) {
				return true
			}
		}
	case *types.Array:
		return containsByValue(x.Elem(), t, depth+1)
	}
	return false
}

func (vc *VC) hasPred(t types.Type) string {
	r := vc.root()
	name := "has_" + sanitize(types.TypeString(t, nil))
	if r.hasPreds == nil {
		r.hasPreds = map[string]types.Type{}
	}
	if _, ok := r.hasPreds[name]; !ok {
		r.hasPreds[name] = t
		vc.declareRaw(name, "(declare-fun "+name+" (Int) Bool)")
	}
	return name
}

func (vc *VC) recordIDType(id int, t types.Type) {
	r := vc.root()
	if r.idTypes == nil {
		r.idTypes = map[int]types.Type{}
	}
	r.idTypes[id] = t
}

// containmentAxioms: has_T(id_U) for every registered predicate and type id.
func (vc *VC) containmentAxioms() []string {
	var out []string
	var names []string
	for n := range vc.hasPreds {
		names = append(names, n)
	}
	sort.Strings(names)
	var ids []int
	for id := range vc.idTypes {
		ids = append(ids, id)
	}
	sort.Ints(ids)
	for _, n := range names {
		t := vc.hasPreds[n]
		for _, id := range ids {
			u := vc.idTypes[id]
			if containsByValue(u, t, 0) {
				out = append(out, "("+n+" "+num(int64(id))+")")
			} else {
				out = append(out, "(not ("+n+" "+num(int64(id))+"))")
			}
		}
	}
	return out
}

// mapValFacts: well-typedness facts for a value looked up in map object m of heap h.
func (vc *VC) mapValFacts(vals []string, mt *types.Map, kl Leaf, h Heap, m string) []string {
	var out []string
	for i, l := range vc.L.Leaves(mt.Elem()) {
		if i >= len(vals) {
			break
		}
		out = append(out, vc.rangeFact(vals[i], l, h))
		key := "MV_" + sortTag[kl.Sort] + "_" + sortTag[l.Sort]
		name, ok := h.M[key]
		if !ok {
			continue
		}
		b, ok := vc.root().heapBound[name]
		if !ok || b == h.Alloc {
			continue
		}
		var ref string
		switch l.Sort {
		case SPtr:
			ref = "(p_obj " + vals[i] + ")"
		case SSlice:
			ref = "(s_obj " + vals[i] + ")"
		case SIface:
			ref = "(p_obj (i_pl " + vals[i] + "))"
		case SRef:
			ref = vals[i]
		default:
			continue
		}
		out = append(out, implies("(<= "+m+" "+b+")", "(<= "+ref+" "+b+")"))
	}
	return out
}
