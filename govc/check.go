package main

import (
	"encoding/json"
	"fmt"
	"os"
	"path/filepath"
	"regexp"
	"sort"
	"strings"
	"sync"
	"time"
)

type CheckOpts struct {
	Prop     string
	Tier     string
	Timeout  int
	All      bool // all solvers must answer (thorough)
	WorkDir  string
	Verbose  bool
	OnlyFunc string
	Seed     int
}

type OblReport struct {
	Name    string `json:"name"`
	Canon   string `json:"canon"`
	Kind    string `json:"kind"`
	Func    string `json:"func"`
	Pos     string `json:"pos,omitempty"`
	Src     string `json:"src,omitempty"`
	Verdict string `json:"verdict"`
	Solver  string `json:"solver,omitempty"`
	MS      int64  `json:"ms"`
	Bytes   int    `json:"vc_bytes"`
	File    string `json:"-"`
	Output  string `json:"-"`
	All     map[string]string `json:"all_solvers,omitempty"`
}

var canonRe = regexp.MustCompile(`@b\d+|@[A-Za-z0-9_./\-]+\.go:\d+`)

func canonName(n string) string { return canonRe.ReplaceAllString(n, "") }

type FuncReport struct {
	Key      string
	Mode     string
	Notes    []string
	Assumed  []string
	Callees  []string
	Obls     []*OblReport
	GenMS    int64
	Err      string
	Thin     bool
}

// buildQuery renders one obligation as an SMT-LIB script.
func buildQuery(vc *VC, o *Obligation) string {
	if o.Raw != "" {
		return o.Raw
	}
	var sb strings.Builder
	sb.WriteString("; obligation: " + o.Name + "\n; source: " + o.Src + "\n")
	sb.WriteString(smtPrelude)
	for _, d := range vc.alignmentDefs() {
		sb.WriteString(d + "\n")
	}
	for _, d := range vc.decls {
		sb.WriteString(d + "\n")
	}
	for _, d := range o.Decls {
		sb.WriteString(d + "\n")
	}
	for _, a := range append(vc.literalAxioms(), vc.containmentAxioms()...) {
		sb.WriteString("(assert " + a + ")\n")
	}
	ctx := vc.asserts
	if o.Ctx >= 0 && o.Ctx < len(ctx) {
		ctx = ctx[:o.Ctx]
	}
	for _, a := range ctx {
		if o.Kind == "reach" && (strings.Contains(a, "(forall ") || strings.Contains(a, "(exists ")) {
			continue // quantifier-free approximation of the context: decidable reachability cover
		}
		sb.WriteString("(assert " + a + ")\n")
	}
	for _, hy := range o.Hyps {
		sb.WriteString("(assert " + hy + ")\n")
	}
	if o.Expect == "sat" {
		sb.WriteString("(assert " + o.Goal + ")\n")
	} else {
		sb.WriteString("(assert (not " + o.Goal + "))\n")
	}
	sb.WriteString("(check-sat)\n(get-model)\n")
	return sb.String()
}

func verifyFunction(P *Program, CS *ContractSet, L *Layout, ct *FuncContract, opts CheckOpts) *FuncReport {
	fr := &FuncReport{Key: ct.Key(), Mode: ct.Mode, Thin: ct.Flags["thin"]}
	t0 := time.Now()
	fn := P.FindFunc(ct.Pkg, ct.Name)
	if fn == nil {
		fr.Obls = append(fr.Obls, &OblReport{Name: ct.Key() + "/contract-target-missing", Canon: ct.Key() + "/contract-target-missing",
			Kind: "target", Func: ct.Key(), Verdict: "failed", Src: "the function this contract is attached to no longer exists"})
		return fr
	}
	if ct.Mode == "bv" {
		return verifyFunctionBV(P, CS, fn, ct, opts, fr)
	}
	vc := NewVC(P, CS, L, fn, ct)
	err := vc.Generate()
	var loopGone *OblReport
	if err != nil && (strings.Contains(err.Error(), "does not exist (function has") || strings.Contains(err.Error(), "contract says") ||
		(strings.Contains(err.Error(), "/loop#") && strings.Contains(err.Error(), "unknown name"))) {
		// (third case: a loop invariant names a local variable that no longer exists)
		// the loop a contract clause is attached to is gone or is a different loop now: that is reported,
		// and the rest of the contract (pre/postconditions, at-call assertions, frame) is still checked -
		// without the loop clauses that no longer attach - so that the report also names what the
		// rewritten code fails to establish
		loopGone = &OblReport{Name: ct.Key() + "/contract-target-missing[loop]", Canon: ct.Key() + "/contract-target-missing[loop]",
			Kind: "target", Func: ct.Key(), Verdict: "failed", Src: err.Error()}
		ct2 := *ct
		ct2.Loops = map[int]*LoopSpec{}
		vc = NewVC(P, CS, L, fn, &ct2)
		if err = vc.Generate(); err != nil {
			fr.Err = err.Error()
			fr.Obls = append(fr.Obls, loopGone)
			return fr
		}
		fr.Obls = append(fr.Obls, loopGone)
	}
	if err != nil {
		fr.Err = err.Error()
		fr.Obls = append(fr.Obls, &OblReport{Name: ct.Key() + "/vc-generation", Canon: ct.Key() + "/vc-generation", Kind: "tool", Func: ct.Key(),
			Verdict: "tool-error", Src: err.Error()})
		return fr
	}
	if loopGone != nil {
		// without its loop clauses the frame of the rewritten function is not worth reporting clause by
		// clause (every heap kind would be listed): keep what the contract says about results and calls
		kept := vc.obls[:0]
		for _, o := range vc.obls {
			if o.Kind != "frame" {
				kept = append(kept, o)
			}
		}
		vc.obls = kept
	}
	for i := range ct.SortedBy {
		if ct.SortedBy[i].Seen == 0 {
			vc.addObl(&Obligation{Name: vc.key + "/contract-target-missing[sorted " + ct.SortedBy[i].Name + "]", Kind: "target", Goal: "false",
				Src: "the sort call on " + ct.SortedBy[i].Name + " that a `sorted ... by` clause is attached to no longer exists"})
		}
		ct.SortedBy[i].Seen = 0
	}
	for callee := range ct.AtCall {
		if vc.atCallSeen[callee] == 0 {
			vc.addObl(&Obligation{Name: vc.key + "/contract-target-missing[at-call " + callee + "]", Kind: "target", Goal: "false",
				Src: "the call of " + callee + " that an at-call assertion is attached to no longer exists"})
		}
	}
	for _, c := range ct.Covers {
		if !vc.coverSeen[c.Label] {
			vc.addObl(&Obligation{Name: vc.key + "/contract-target-missing[reachable " + c.Label + "]", Kind: "target", Goal: "false",
				Src: fmt.Sprintf("the statement %q that a reachable clause is attached to no longer exists", c.Text)})
		}
	}
	// vacuity: the context (requires + assumed facts) must be satisfiable with some return reachable
	var retGuards []string
	for _, r := range vc.rets {
		retGuards = append(retGuards, r.guard)
	}
	if len(retGuards) > 0 {
		vc.addObl(&Obligation{Name: vc.key + "/vacuity", Kind: "vacuity", Goal: or(retGuards...), Expect: "sat", Src: "requires and assumed facts are satisfiable and some return is reachable"})
	}
	// reachability covers: every distinct path condition under which something is proved must be
	// satisfiable together with the quantifier-free part of the context; `unsat` means the
	// obligations under that condition hold vacuously (an inconsistent contract or assumption).
	seenGuard := map[string]bool{}
	nObl := len(vc.obls)
	for i := 0; i < nObl; i++ {
		o := vc.obls[i]
		if o.Kind == "vacuity" || o.Kind == "target" || o.Kind == "frame" || o.Kind == "binds" || !strings.HasPrefix(o.Goal, "(=> ") {
			continue
		}
		parts := splitSexp(o.Goal[4 : len(o.Goal)-1])
		if len(parts) != 2 || seenGuard[parts[0]] {
			continue
		}
		g := parts[0]
		seenGuard[g] = true
		if strings.Contains(g, "q_") {
			continue // mentions skolem constants of that obligation
		}
		vc.addObl(&Obligation{Name: fmt.Sprintf("%s/reach#%d", vc.key, len(seenGuard)), Kind: "reach", Goal: g, Expect: "sat",
			Src: "path condition of " + o.Name + " is satisfiable (quantifier-free part of the context)"})
	}
	fr.GenMS = time.Since(t0).Milliseconds()
	fr.Notes = sortedKeys(vc.notes)
	fr.Assumed = sortedKeys(vc.assumed)
	fr.Callees = sortedKeys(vc.callees)
	var wg sync.WaitGroup
	reps := make([]*OblReport, len(vc.obls))
	for i, o := range vc.obls {
		q := buildQuery(vc, o)
		file := filepath.Join(opts.WorkDir, sanitize(opts.Prop), fmt.Sprintf("%s_%03d.smt2", sanitize(ct.Key()), i))
		_ = writeFile(file, q)
		rep := &OblReport{Name: o.Name, Canon: canonName(o.Name), Kind: o.Kind, Func: ct.Key(), Pos: o.Pos, Src: o.Src, Bytes: len(q), File: file}
		reps[i] = rep
		wg.Add(1)
		go func(o *Obligation, rep *OblReport) {
			defer wg.Done()
			to := opts.Timeout
			if (o.Kind == "vacuity" || o.Kind == "reach") && to > 10 {
				to = 10
			}
			if o.Kind == "binds" && opts.Tier == "quick" && to > 60 {
				to = 60 // relational obligations answer in seconds or not at all (the undecided ones are the listed known findings)
			}
			if o.Kind == "cover" && to > 20 {
				to = 20 // only a refutation counts; a live statement usually ends in `unknown`
			}
			res := RunSolvers(rep.File, to, opts.All && o.Kind != "vacuity" && o.Kind != "reach")
			rep.Solver, rep.MS, rep.Output, rep.All = res.Solver, res.MS, res.Output, res.All
			switch {
			case res.Verdict == "disagree":
				rep.Verdict = "solver-disagreement"
			case allSolversErrored(res.All):
				// every solver rejected the query (ill-sorted / malformed SMT): a defect of the generator or
				// of a contract expression, never a verdict about the code
				rep.Verdict = "tool-error"
				rep.Src = "every solver rejected the query: " + strings.TrimSpace(strings.SplitN(res.Output, "\n", 2)[0]) + "  -- clause: " + rep.Src
			case o.Expect == "sat" && o.Kind == "cover":
				// reachable[label]: only a PROOF that the statement is dead fails the obligation
				switch res.Verdict {
				case "unsat":
					rep.Verdict = "dead-code"
					rep.Output = "the solver proved the path condition of the statement unsatisfiable under the contracts\n" + rep.Output
				case "sat":
					rep.Verdict = "discharged"
				default:
					rep.Verdict = "discharged"
					rep.Src += "  (solver: " + res.Verdict + " - not refuted)"
				}
			case o.Expect == "sat":
				// vacuity: sat = fine; unsat = vacuous; unknown = tolerated (quantifiers) but recorded
				switch res.Verdict {
				case "sat":
					rep.Verdict = "discharged"
				case "unsat":
					rep.Verdict = "vacuous"
				default:
					rep.Verdict = "cover-unknown"
				}
			case res.Verdict == "unsat":
				rep.Verdict = "discharged"
			case res.Verdict == "sat":
				rep.Verdict = "refuted"
			default:
				rep.Verdict = "undischarged:" + res.Verdict
			}
		}(o, rep)
	}
	wg.Wait()
	fr.Obls = reps
	return fr
}

// ---------------------------------------------------------------- known findings

type Finding struct {
	Kind       string // known | fixed
	Prop       string
	Obligation string // canonical name or glob (known only)
	Text       string
}

func loadFindings() []Finding {
	b, err := os.ReadFile("/verif/known_findings.txt")
	if err != nil {
		return nil
	}
	var out []Finding
	for _, l := range strings.Split(string(b), "\n") {
		l = strings.TrimSpace(l)
		if l == "" || strings.HasPrefix(l, "#") {
			continue
		}
		f := Finding{}
		switch {
		case strings.HasPrefix(l, "known:"):
			f.Kind = "known"
			l = strings.TrimSpace(l[6:])
		case strings.HasPrefix(l, "fixed:"):
			f.Kind = "fixed"
			l = strings.TrimSpace(l[6:])
		default:
			continue
		}
		for _, w := range strings.Fields(l) {
			if strings.HasPrefix(w, "property=") && f.Prop == "" {
				f.Prop = w[9:]
			} else if strings.HasPrefix(w, "obligation=") && f.Obligation == "" {
				f.Obligation = w[11:]
			}
		}
		f.Text = l
		out = append(out, f)
	}
	return out
}

func matchFinding(fs []Finding, prop, canon string) *Finding {
	for i := range fs {
		f := &fs[i]
		if f.Kind != "known" || f.Prop != prop {
			continue
		}
		if ok, _ := filepath.Match(f.Obligation, canon); ok || f.Obligation == canon {
			return f
		}
	}
	return nil
}

// ---------------------------------------------------------------- property check

func RunCheck(opts CheckOpts) int {
	t0 := time.Now()
	CS, err := LoadContracts()
	if err != nil {
		fmt.Fprintln(os.Stderr, "contracts:", err)
		return 2
	}
	var sel []*FuncContract
	pkgSet := map[string]bool{}
	var assumedAll []string
	for _, k := range sortedKeys(CS.Funcs) {
		ct := CS.Funcs[k]
		has := false
		for _, p := range ct.Props {
			if p == opts.Prop {
				has = true
			}
		}
		if !has {
			continue
		}
		if ct.Kind != "func" {
			assumedAll = append(assumedAll, ct.Kind+" "+ct.Key())
			continue
		}
		if ct.Flags["trusted"] {
			assumedAll = append(assumedAll, "trusted (contract used at call sites, body not verified) "+ct.Key())
			continue
		}
		if opts.OnlyFunc != "" && !strings.Contains(ct.Key(), opts.OnlyFunc) {
			continue
		}
		sel = append(sel, ct)
		pkgSet[ct.Pkg] = true
	}
	if len(sel) == 0 {
		fmt.Fprintf(os.Stderr, "no contracts serve property %s\n", opts.Prop)
		return 2
	}
	var writerDecls []*WriterDecl
	for _, w := range CS.Writers {
		if w.Prop == opts.Prop && (opts.OnlyFunc == "" || strings.Contains("writers", opts.OnlyFunc)) {
			writerDecls = append(writerDecls, w)
			pkgSet[w.Pkg] = true
		}
	}
	tl := time.Now()
	P, err := LoadProgram(sortedKeys(pkgSet), nil)
	if err != nil {
		fmt.Fprintln(os.Stderr, "load:", err)
		return 2
	}
	loadMS := time.Since(tl).Milliseconds()
	L := NewLayout()
	var reports []*FuncReport
	var mu sync.Mutex
	var wg sync.WaitGroup
	// VC generation is sequential per function (shared layout cache); solving is parallel.
	for _, ct := range sel {
		fr := verifyFunctionSafe(P, CS, L, ct, opts)
		mu.Lock()
		reports = append(reports, fr)
		mu.Unlock()
	}
	wg.Wait()
	for _, w := range writerDecls {
		reports = append(reports, checkWriters(P, w))
	}
	return finishCheck(opts, CS, reports, assumedAll, loadMS, t0)
}

func verifyFunctionSafe(P *Program, CS *ContractSet, L *Layout, ct *FuncContract, opts CheckOpts) (fr *FuncReport) {
	defer func() {
		if r := recover(); r != nil {
			fr = &FuncReport{Key: ct.Key(), Err: fmt.Sprint(r)}
			fr.Obls = append(fr.Obls, &OblReport{Name: ct.Key() + "/vc-generation", Canon: ct.Key() + "/vc-generation", Kind: "tool", Func: ct.Key(),
				Verdict: "tool-error", Src: fmt.Sprint(r)})
		}
	}()
	return verifyFunction(P, CS, L, ct, opts)
}

func finishCheck(opts CheckOpts, CS *ContractSet, reports []*FuncReport, assumedAll []string, loadMS int64, t0 time.Time) int {
	findings := loadFindings()
	total, discharged := 0, 0
	violations := 0
	toolErr := false
	var lines []string
	var samples []any
	var table []any
	var funcs []string
	notes := map[string]bool{}
	assumed := map[string]bool{}
	for _, a := range assumedAll {
		assumed[a] = true
	}
	var thin []string
	known := map[string]bool{}
	var solverMS int64
	byBackend := map[string]int{}
	var deadReports, infeasible []string
	replayDir := filepath.Join(outRoot, "replays", opts.Prop)
	_ = os.RemoveAll(replayDir)
	for _, fr := range reports {
		funcs = append(funcs, fr.Key+" (mode "+fr.Mode+")")
		if fr.Thin {
			thin = append(thin, fr.Key)
		}
		for _, n := range fr.Notes {
			notes[n] = true
		}
		for _, a := range fr.Assumed {
			assumed["contract (not verified here) "+a] = true
		}
		// infeasible path conditions: allowed up to the number the contract declares (dead-paths N,
		// each reviewed: a branch the contracts rule out); one more means some assumption or
		// contract became inconsistent on a path and everything proved there is vacuous
		deadAllowed, deadSeen := 0, 0
		if c, ok := CS.Funcs[fr.Key]; ok {
			deadAllowed = c.DeadPaths
		}
		for _, o := range fr.Obls {
			if o.Kind == "reach" && o.Verdict == "vacuous" {
				deadSeen++
			}
		}
		if deadSeen != deadAllowed {
			deadReports = append(deadReports, fmt.Sprintf("%s: %d infeasible path conditions, contract declares dead-paths %d", fr.Key, deadSeen, deadAllowed))
		}
		for _, o := range fr.Obls {
			if o.Kind == "reach" && o.Verdict == "vacuous" && deadSeen <= deadAllowed {
				infeasible = append(infeasible, o.Src)
				table = append(table, o)
				continue
			}
			if o.Kind == "vacuity" || o.Kind == "reach" {
				if o.Verdict == "vacuous" {
					violations++
					rp := writeReplay(replayDir, opts.Prop, o)
					lines = append(lines, fmt.Sprintf("VIOLATION property=%s replay=%s obligation=%s (contract is vacuous: assumptions unsatisfiable) no-failing-input-found", opts.Prop, rp, o.Canon))
				}
				table = append(table, o)
				continue
			}
			total++
			solverMS += o.MS
			table = append(table, o)
			switch {
			case o.Verdict == "discharged":
				discharged++
				byBackend[o.Solver]++
				if len(samples) < 6 {
					samples = append(samples, map[string]any{"obligation": o.Name, "kind": o.Kind, "source_clause": o.Src, "solver": o.Solver, "ms": o.MS, "vc_bytes": o.Bytes, "verdict": "unsat (discharged)"})
				}
			case o.Verdict == "tool-error" || o.Verdict == "solver-disagreement":
				toolErr = true
				lines = append(lines, fmt.Sprintf("TOOL-ERROR property=%s obligation=%s %s", opts.Prop, o.Name, o.Src))
			default:
				if f := matchFinding(findings, opts.Prop, o.Canon); f != nil {
					if !known[f.Text] {
						known[f.Text] = true
						lines = append(lines, "KNOWN-FINDING: "+f.Text)
					}
					total-- // reported separately under known_finding_obligations, never counted as proved
					continue
				}
				violations++
				rp := writeReplay(replayDir, opts.Prop, o)
				suffix := " no-failing-input-found"
				if o.Verdict == "refuted" {
					if ok := tryReplay(opts, o, rp); ok {
						suffix = ""
					}
				}
				lines = append(lines, fmt.Sprintf("VIOLATION property=%s replay=%s obligation=%s verdict=%s%s", opts.Prop, rp, o.Canon, o.Verdict, suffix))
			}
		}
	}
	sort.Strings(funcs)
	for _, l := range lines {
		fmt.Println(l)
	}
	wall := time.Since(t0).Seconds()
	knownSeen := sortedKeys(known)
	ev := map[string]any{
		"property_id": opts.Prop,
		"tier":        opts.Tier,
		"seed":        opts.Seed,
		"level":       "proof",
		"wall_s":      wall,
		"violations":  violations,
		"coverage": map[string]any{
			"obligations":              total,
			"discharged":               discharged,
			"known_finding_obligations": knownSeenObls(reports, findings, opts.Prop),
			"checker_cmd":              fmt.Sprintf("/verif/bin/govc check %s --tier %s  (SSA->SMT-LIB VC generator; solvers raced: z3 4.8.12, z3-new 5.1.0, cvc5 1.0; timeout %ds/query)", opts.Prop, opts.Tier, opts.Timeout),
			"trusted_base":             trustedBase(),
			"functions_under_contract": funcs,
			"thin_functions":           thin,
			"obligation_table":         table,
			"samples":                  samples,
			"discharged_by_backend":    byBackend,
			"solver_ms_total":          solverMS,
			"load_ms":                  loadMS,
			"dropped_by_translation":   sortedKeys(notes),
			"known_findings_seen":      knownSeen,
			"infeasible_path_conditions_declared_dead": infeasible,
			"dead_path_mismatches":     deadReports,
			"contract_files":           relFiles(CS.Files),
		},
		"assumptions": append(sortedKeys(assumed), standingAssumptions()...),
	}
	b, _ := json.MarshalIndent(ev, "", " ")
	_ = os.MkdirAll(filepath.Join(outRoot, "evidence"), 0o755)
	_ = os.WriteFile(filepath.Join(outRoot, "evidence", opts.Prop+".json"), b, 0o644)
	fmt.Printf("property %s: %d obligations, %d discharged, %d known-finding, %d violations, %.1fs\n", opts.Prop, total, discharged, len(knownSeenObls(reports, findings, opts.Prop)), violations, wall)
	// a decided violation is reported as such even when other obligations of the run could not be posed
	// (TOOL-ERROR lines are printed too); tool errors alone are exit 2: the check itself is broken
	if violations > 0 {
		return 1
	}
	if toolErr {
		return 2
	}
	return 0
}

func knownSeenObls(reports []*FuncReport, fs []Finding, prop string) []string {
	var out []string
	for _, fr := range reports {
		for _, o := range fr.Obls {
			if o.Kind == "vacuity" || o.Kind == "reach" || o.Verdict == "discharged" || o.Verdict == "tool-error" {
				continue
			}
			if matchFinding(fs, prop, o.Canon) != nil {
				out = append(out, o.Canon)
			}
		}
	}
	return out
}

func relFiles(fs []string) []string {
	var out []string
	for _, f := range fs {
		out = append(out, f)
	}
	return out
}

func trustedBase() []string {
	return []string{
		"govc: contract parser and SSA->SMT verification-condition generator (/verif/govc)",
		"golang.org/x/tools/go/ssa v0.29.0 lowering of the Go source in /repo (the verified text is the SSA of the files the compiler reads)",
		"SMT solvers z3 4.8.12, z3-new 5.1.0, cvc5 1.0",
		"grocksdb build shim: declarations of github.com/linxGnu/grocksdb that mention C symbols absent from the installed RocksDB are cut via go build -overlay (none referenced by 0chain)",
	}
}

func standingAssumptions() []string {
	return []string{
		"sequential semantics: no interleaving of other goroutines with the function under contract",
		"slice lengths/capacities are at most 2^40 elements",
		"pointers of named struct types that never occur by value inside another type point to the start of an allocation (no unsafe)",
		"partial correctness: a path that panics (explicit panic, load or store through a nil pointer) is not an execution that returns - postconditions say nothing about it unless the contract claims nopanic; index-out-of-range and failed type assertions are NOT treated that way (their results are abstracted)",
		"logging/metrics/fmt/errors constructors on the allowlist neither panic nor mutate modelled state",
		"induction over histories from per-operation preservation is stated, not mechanised",
	}
}

func writeReplay(dir, prop string, o *OblReport) string {
	_ = os.MkdirAll(dir, 0o755)
	p := filepath.Join(dir, sanitize(o.Canon)+".json")
	out := o.Output
	if len(out) > 20000 {
		out = out[:20000] + "\n...truncated"
	}
	m := map[string]any{"property": prop, "obligation": o.Name, "canonical": o.Canon, "kind": o.Kind, "function": o.Func, "position": o.Pos,
		"clause": o.Src, "verdict": o.Verdict, "solver": o.Solver, "all_solvers": o.All, "smt_file": o.File, "solver_output": out}
	b, _ := json.MarshalIndent(m, "", " ")
	_ = os.WriteFile(p, b, 0o644)
	return p
}

// tryReplay is filled in by replay.go; returns true if the counterexample reproduced on the real code.
var tryReplay = func(opts CheckOpts, o *OblReport, replayPath string) bool { return false }

func allSolversErrored(all map[string]string) bool {
	if len(all) == 0 {
		return false
	}
	for _, v := range all {
		if v != "error" {
			return false
		}
	}
	return true
}
