package round

// Replay of obligation (*timeoutCounter).IncrementTimeoutCount/post[monotone]#1 (property C37):
// solver model old(count) > cap > 0.
import (
	"testing"

	"0chain.net/core/viper"
)

func TestVerifReplay_C37_timeout_count_monotone(t *testing.T) {
	viper.Set("server_chain.round_timeouts.timeout_cap", 10)
	tc := &timeoutCounter{}
	if !tc.SetTimeoutCount(15) { // e.g. taken from a notarized block received from the network
		t.Fatal("SetTimeoutCount(15) rejected")
	}
	before := tc.GetTimeoutCount()
	tc.IncrementTimeoutCount(1, nil)
	if after := tc.GetTimeoutCount(); after < before {
		t.Fatalf("timeout count decreased from %d to %d on IncrementTimeoutCount (cap 10)", before, after)
	}
}
