package main

import (
	"go/types"

	"golang.org/x/tools/go/ssa"
)

// nonNilGlobal: a package-level variable of interface type that is assigned exactly once, in
// the package initialiser, from a constructor known to return non-nil (errors.New, ...), and is
// never assigned anywhere else in its package. Such variables (ErrXxx) are non-nil.
func (P *Program) nonNilGlobal(g *ssa.Global) bool {
	if P.nonNil == nil {
		P.nonNil = map[*ssa.Global]bool{}
		P.nonNilDone = map[*ssa.Package]bool{}
	}
	if g.Pkg == nil {
		return false
	}
	// standard-library sentinel errors (bodies not loaded): non-nil by documentation (assumption)
	switch g.Pkg.Pkg.Path() + "." + g.Name() {
	case "context.Canceled", "context.DeadlineExceeded", "io.EOF", "io.ErrUnexpectedEOF", "io.ErrShortWrite",
		"os.ErrNotExist", "os.ErrExist", "database/sql.ErrNoRows", "io/fs.ErrNotExist":
		return true
	}
	if _, isI := g.Type().Underlying().(*types.Pointer).Elem().Underlying().(*types.Interface); !isI {
		return false
	}
	if !P.nonNilDone[g.Pkg] {
		P.nonNilDone[g.Pkg] = true
		stores := map[*ssa.Global]int{}
		good := map[*ssa.Global]bool{}
		var visit func(f *ssa.Function, isInit bool)
		seen := map[*ssa.Function]bool{}
		visit = func(f *ssa.Function, isInit bool) {
			if f == nil || seen[f] {
				return
			}
			seen[f] = true
			for _, b := range f.Blocks {
				for _, in := range b.Instrs {
					st, ok := in.(*ssa.Store)
					if !ok {
						continue
					}
					gg, ok := st.Addr.(*ssa.Global)
					if !ok {
						continue
					}
					stores[gg]++
					if isInit && nonNilValue(st.Val) {
						good[gg] = true
					}
				}
			}
			for _, a := range f.AnonFuncs {
				visit(a, false)
			}
		}
		for _, m := range g.Pkg.Members {
			switch x := m.(type) {
			case *ssa.Function:
				visit(x, x.Name() == "init")
			case *ssa.Type:
				for _, T := range []types.Type{x.Type(), types.NewPointer(x.Type())} {
					ms := P.Prog.MethodSets.MethodSet(T)
					for i := 0; i < ms.Len(); i++ {
						visit(P.Prog.MethodValue(ms.At(i)), false)
					}
				}
			}
		}
		for gg, n := range stores {
			if n == 1 && good[gg] {
				P.nonNil[gg] = true
			}
		}
	}
	return P.nonNil[g]
}

func nonNilValue(v ssa.Value) bool {
	switch x := v.(type) {
	case *ssa.MakeInterface:
		if _, isP := x.X.Type().Underlying().(*types.Pointer); isP {
			return nonNilValue(x.X)
		}
		return true // boxed non-pointer value: the interface is non-nil
	case *ssa.ChangeInterface:
		return nonNilValue(x.X)
	case *ssa.Call:
		if f := x.Call.StaticCallee(); f != nil {
			return hasAnyPrefix(ssaFuncName(f), nonNilResult)
		}
	case *ssa.Alloc:
		return true
	}
	return false
}
