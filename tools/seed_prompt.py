#!/usr/bin/env python3
"""seed_prompt.py <PROP> [wtname]  -> prints the sub-agent prompt (property text only, nothing from /verif)"""
import json, sys
pid = sys.argv[1]; name = sys.argv[2] if len(sys.argv) > 2 else pid
for l in open('/verif/properties.jsonl'):
    p = json.loads(l)
    if p['id'] == pid:
        break
mech = '; '.join(f"{m['name']} ({m['where']})" for m in p['anchors'].get('mechanism', []))
prop = f"{p['id']}: {p['title']}. {p['statement']} Must hold for: {p['quantifier']['text']} Code it is anchored in: {mech}"
t = open('/verif/tools/seed_prompt.txt').read()
print(t.replace('{WT}', f'/tmp/wt/{name}').replace('{PROP}', prop).replace('{ID}', pid))
