package faucetsc

// Replay of obligations (*FaucetSmartContract).pour/at-call@AddTransfer[balance|periodic-limit|global-limit]
// (property C17). Solver model: PourAmount < t.Value < MaxPourAmount with limits and balance
// below t.Value.
import (
	"testing"
	"time"

	cstate "0chain.net/chaincore/chain/state"
	sci "0chain.net/chaincore/smartcontractinterface"
	"0chain.net/chaincore/state"
	"0chain.net/chaincore/transaction"
	"github.com/0chain/common/core/currency"
	"github.com/0chain/common/core/logging"
	"github.com/0chain/common/core/util"
	"go.uber.org/zap"
)

type replayCtx struct {
	cstate.StateContextI
	bal       currency.Coin
	transfers []*state.Transfer
}

func (s *replayCtx) GetClientBalance(string) (currency.Coin, error) { return s.bal, nil }
func (s *replayCtx) AddTransfer(t *state.Transfer) error {
	s.transfers = append(s.transfers, t)
	return nil
}
func (s *replayCtx) InsertTrieNode(k string, _ util.MPTSerializable) (string, error) { return k, nil }
func (s *replayCtx) GetTrieNode(string, util.MPTSerializable) error {
	return util.ErrValueNotPresent
}

func TestVerifReplay_C17_pour_within_limits(t *testing.T) {
	logging.Logger = zap.NewNop()
	fc := &FaucetSmartContract{SmartContract: sci.NewSC(ADDRESS)}
	fc.setSC(fc.SmartContract, nil)
	gn := &GlobalNode{ID: ADDRESS, FaucetConfig: &FaucetConfig{
		PourAmount: 1, MaxPourAmount: 100, PeriodicLimit: 10, GlobalLimit: 10,
		IndividualReset: time.Hour, GlobalReset: time.Hour}}
	ctx := &replayCtx{bal: 5}
	txn := &transaction.Transaction{ClientID: "client", ToClientID: ADDRESS, Value: 50}
	_, err := fc.pour(txn, nil, ctx, gn)
	if err != nil {
		return // rejected: fine
	}
	var poured currency.Coin
	for _, tr := range ctx.transfers {
		poured += tr.Amount
	}
	if poured > ctx.bal {
		t.Errorf("poured %d with a faucet balance of %d", poured, ctx.bal)
	}
	if poured > gn.PeriodicLimit {
		t.Errorf("poured %d to one client in one window, periodic limit %d", poured, gn.PeriodicLimit)
	}
	if gn.Used > gn.GlobalLimit {
		t.Errorf("global used %d exceeds global limit %d", gn.Used, gn.GlobalLimit)
	}
}
