#!/bin/bash
# usage: tryseed.sh <PROP> <patch.diff>  -- apply a seeded change to /repo, run the quick check, undo
set -u
prop=$1; patch=$2
if [ -n "$(git -C /repo status --porcelain)" ]; then echo "REFUSING: /repo has uncommitted changes (commit first)"; exit 9; fi
cd /repo && git apply "$patch" || { echo "patch does not apply"; exit 3; }
cd /verif && ./bin/govc check $prop 2>&1 | grep -E "VIOLATION|TOOL|property " | cut -c1-400 | awk '/^property /{print; next} n<6{print; n++; next} {more++} END{if(more) print "... " more " more VIOLATION/TOOL lines"}' 
rc=${PIPESTATUS[0]}
git -C /repo checkout -- . 
echo "exit=$rc"
