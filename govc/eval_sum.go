package main

import (
	"fmt"
	"go/types"
	"regexp"
	"strings"
)

// sumof k in lo..hi :: body
//
// A sum is an uninterpreted function S of its upper bound, S(n) = sum_{k=lo}^{n-1} body(k),
// defined by  S(lo) = 0  and one unfolding step per S-term that occurs in the query:
//
//	(A2) forall m > lo:  S(m) = S'(m-1) + body(m-1)        trigger S(m)
//	(A3) forall m:       S'(m) = S(m)                       trigger {S'(m), S(m)}
//
// S' is a copy of S that does not unfold (the usual "fuel" device): (A2) produces only S'-terms,
// (A3) fires only where the S-term already exists, so instantiation terminates. One step is what
// a loop that extends the sum by one element per iteration needs. Two occurrences denote the
// same function when lower bound and body are the same terms (same heap versions).
const sumPlaceholder = "q_sumk_0"

var ldNameRe = regexp.MustCompile(`[A-Za-z_][A-Za-z0-9_]*_\d+`)

func (ev *Eval) sumExpr(s *ESum) (EVal, error) {
	lo, err := ev.intExpr(s.Lo)
	if err != nil {
		return EVal{}, err
	}
	hi, err := ev.intExpr(s.Hi)
	if err != nil {
		return EVal{}, err
	}
	saved, had := ev.bound[s.Var]
	ev.bound[s.Var] = EVal{T: types.Typ[types.Int], Terms: []string{sumPlaceholder}, Untyped: true}
	body, err := ev.intExpr(s.Body)
	delete(ev.bound, s.Var)
	if had {
		ev.bound[s.Var] = saved
	}
	if err != nil {
		return EVal{}, err
	}
	for _, nm := range qNameRe.FindAllString(body+" "+lo, -1) {
		if nm != sumPlaceholder && !ev.skolemSet[nm] {
			return EVal{}, fmt.Errorf("sumof body/bounds may not mention a variable bound by an enclosing quantifier (%s)", nm)
		}
	}
	vc := ev.vc
	root := vc.root()
	if root.sumFns == nil {
		root.sumFns = map[string]string{}
	}
	// the same load is named ld_N differently under different path conditions: the key uses the
	// load terms themselves, so both occurrences denote one function
	canon := func(t string) string {
		for i := 0; i < 8; i++ {
			changed := false
			t = ldNameRe.ReplaceAllStringFunc(t, func(n string) string {
				if d, ok := root.ldDefs[n]; ok {
					changed = true
					return d
				}
				return n
			})
			if !changed || len(t) > 40000 {
				break
			}
		}
		return t
	}
	key := canon(lo) + "|" + canon(body)
	fn, ok := root.sumFns[key]
	if !ok {
		fn = fmt.Sprintf("sumfn_%d", len(root.sumFns))
		root.sumFns[key] = fn
		vc.declareRaw(fn, "(declare-fun "+fn+" (Int) Int)")
		vc.declareRaw(fn+"_u", "(declare-fun "+fn+"_u (Int) Int)")
		prev := strings.ReplaceAll(body, sumPlaceholder, "(- "+sumPlaceholder+" 1)")
		vc.assume("(= (" + fn + " " + lo + ") 0)")
		vc.assume("(= (" + fn + "_u " + lo + ") 0)")
		vc.assume(fmt.Sprintf("(forall ((%s Int)) (! (=> (> %s %s) (= (%s %s) (+ (%s_u (- %s 1)) %s))) :pattern ((%s %s))))",
			sumPlaceholder, sumPlaceholder, lo, fn, sumPlaceholder, fn, sumPlaceholder, prev, fn, sumPlaceholder))
		vc.assume(fmt.Sprintf("(forall ((%s Int)) (! (= (%s_u %s) (%s %s)) :pattern ((%s_u %s) (%s %s))))",
			sumPlaceholder, fn, sumPlaceholder, fn, sumPlaceholder, fn, sumPlaceholder, fn, sumPlaceholder))
		vc.note("sumof: sums are uninterpreted functions with a one-step unfolding axiom (no induction)")
	}
	// an empty or reversed range sums to 0
	return EVal{T: types.Typ[types.Int], Terms: []string{ite("(<= "+hi+" "+lo+")", "0", "("+fn+" "+hi+")")}, Untyped: true}, nil
}
