#!/bin/bash
# usage: run_replay.sh <pkgdir relative to module> <replay_test.go> [-run regex]
# Runs an in-package replay test against /repo's working tree via go test -overlay; existing
# *_test.go files of the package are blanked (most do not compile: mocks are not checked in).
pkg=$1; src=$2; shift 2
mod=/repo/code/go/0chain.net
name=$(grep -m1 '^package ' $src | awk '{print $2}')
tmp=$(mktemp -d)
echo "package $name" > $tmp/blank.go
python3 - "$mod/$pkg" "$src" "$tmp" <<'PY'
import json,sys,glob,os
pkgdir,src,tmp=sys.argv[1:4]
ov=json.load(open('/verif/work/shim/overlay.json'))['Replace']
for f in glob.glob(pkgdir+'/*_test.go'):
    ov[f]=tmp+'/blank.go'
ov[pkgdir+'/zz_replay_test.go']=os.path.abspath(src)
# sibling replay files of the same directory (zz_replay_*_test.go) share helpers with it
for f in glob.glob(os.path.dirname(os.path.abspath(src))+'/zz_replay_*_test.go'):
    ov[pkgdir+'/'+os.path.basename(f)]=f
json.dump({'Replace':ov},open(tmp+'/ov.json','w'))
PY
cd $mod && GOFLAGS= GOPROXY=off GOSUMDB=off GOTOOLCHAIN=local go test -overlay $tmp/ov.json -vet=off -count=1 -timeout 120s "$@" ./$pkg 2>&1 | tail -15
rc=${PIPESTATUS[0]}
rm -rf $tmp
exit $rc
