package round

// Replay of obligation (*Round).UpdateNotarizedBlock/loop#2/inv-preserve#3 (property C35):
// solver model: one notarized block with the hash of b, a different object.
import (
	"testing"

	"0chain.net/chaincore/block"
)

func TestVerifReplay_C35_UpdateNotarizedBlock_replaces(t *testing.T) {
	old := &block.Block{}
	old.Hash = "h1"
	nb := &block.Block{}
	nb.Hash = "h1"
	r := &Round{}
	r.notarizedBlocks = []*block.Block{old}
	r.UpdateNotarizedBlock(nb)
	if r.notarizedBlocks[0] != nb {
		t.Fatal("UpdateNotarizedBlock left the old block object in the notarized list")
	}
}
