package minersc

// Replay of obligation (*MinerSmartContract).payShardersAndDelegates/pre@DistributeCoin#1 (a > 0),
// property C22: payFees hands payShardersAndDelegates the list of sharders to reward, cut to
// gn.NumShardersRewarded (0 is accepted by GlobalNode.validate) and to the registered sharders that are
// in the current magic block (possibly none). With an empty list the divisor of DistributeCoin is 0:
// the fee payment panics with "integer divide by zero" instead of paying nobody.
import (
	"testing"

	"0chain.net/smartcontract/stakepool/spenum"
	"github.com/0chain/common/core/logging"
	"go.uber.org/zap"
)

func TestVerifReplay_C22_no_sharder_to_reward(t *testing.T) {
	logging.Logger = zap.NewNop()
	msc := &MinerSmartContract{}
	gn := &GlobalNode{}
	defer func() {
		if r := recover(); r != nil {
			t.Fatalf("payShardersAndDelegates with no sharder to reward panicked: %v", r)
		}
	}()
	if err := msc.payShardersAndDelegates(gn, nil, 100, 1, spenum.FeeRewardSharder, nil); err != nil {
		t.Fatalf("unexpected error: %v", err)
	}
}
