package main

import (
	"bytes"
	"context"
	"fmt"
	"os"
	"os/exec"
	"path/filepath"
	"strings"
	"sync"
	"time"
)

const smtPrelude = `(set-option :produce-models true)
(set-logic ALL)
(declare-datatypes ((Str 0)) (((str_empty) (str_mk (str_id Int)))))
(declare-datatypes ((F64 0)) (((f64_zero) (f64_mk (f64_id Int)))))
(declare-datatypes ((Ptr 0)) (((mkptr (p_obj Int) (p_slot Int) (p_idx Int)))))
(declare-datatypes ((Slice 0)) (((mkslice (s_obj Int) (s_slot Int) (s_off Int) (s_len Int) (s_cap Int)))))
(declare-datatypes ((Iface 0)) (((mkiface (i_tid Int) (i_pl Ptr)))))
(define-fun nilptr () Ptr (mkptr 0 0 0))
(define-fun nilslice () Slice (mkslice 0 0 0 0 0))
(define-fun niliface () Iface (mkiface 0 nilptr))
(declare-fun str_len (Str) Int)
(declare-fun str_lt (Str Str) Bool)
(declare-fun str_concat (Str Str) Str)
(declare-fun str_of_int (Int) Str)
(declare-fun dyntype (Int) Int)
(declare-fun f64_add (F64 F64) F64)
(declare-fun f64_sub (F64 F64) F64)
(declare-fun f64_mul (F64 F64) F64)
(declare-fun f64_div (F64 F64) F64)
(declare-fun f64_neg (F64) F64)
(declare-fun f64_lt (F64 F64) Bool)
(declare-fun f64_le (F64 F64) Bool)
(declare-fun f64_of_int (Int) F64)
(declare-fun int_of_f64 (F64) Int)
(declare-fun uf_int (Int Int Int) Int)
(define-sort HI () (Array Int (Array Int (Array Int Int))))
(define-sort HB () (Array Int (Array Int (Array Int Bool))))
(define-sort HS () (Array Int (Array Int (Array Int Str))))
(define-sort HF () (Array Int (Array Int (Array Int F64))))
(define-sort HP () (Array Int (Array Int (Array Int Ptr))))
(define-sort HL () (Array Int (Array Int (Array Int Slice))))
(define-sort HA () (Array Int (Array Int (Array Int Iface))))
(define-sort HR () (Array Int (Array Int (Array Int Int))))
(define-fun wrap_s64 ((x Int)) Int (ite (> x 9223372036854775807) (- x 18446744073709551616) (ite (< x (- 9223372036854775808)) (+ x 18446744073709551616) x)))
(define-fun wrap_u64 ((x Int)) Int (ite (> x 18446744073709551615) (- x 18446744073709551616) (ite (< x 0) (+ x 18446744073709551616) x)))
(define-fun tdiv ((x Int) (y Int)) Int (ite (>= x 0) (ite (> y 0) (div x y) (- (div x (- y)))) (ite (> y 0) (- (div (- x) y)) (div (- x) (- y)))))
(define-fun tmod ((x Int) (y Int)) Int (- x (* y (tdiv x y))))
(assert (= (str_len str_empty) 0))
`

func heapSortName(s Sort) string { return "H" + sortTag[s] }

func and(xs ...string) string {
	var ys []string
	for _, x := range xs {
		if x == "true" || x == "" {
			continue
		}
		if x == "false" {
			return "false"
		}
		ys = append(ys, x)
	}
	switch len(ys) {
	case 0:
		return "true"
	case 1:
		return ys[0]
	}
	return "(and " + strings.Join(ys, " ") + ")"
}
func or(xs ...string) string {
	var ys []string
	for _, x := range xs {
		if x == "false" || x == "" {
			continue
		}
		if x == "true" {
			return "true"
		}
		ys = append(ys, x)
	}
	switch len(ys) {
	case 0:
		return "false"
	case 1:
		return ys[0]
	}
	return "(or " + strings.Join(ys, " ") + ")"
}
func not(x string) string {
	if x == "true" {
		return "false"
	}
	if x == "false" {
		return "true"
	}
	if strings.HasPrefix(x, "(not ") && balanced(x[5:len(x)-1]) {
		return x[5 : len(x)-1]
	}
	return "(not " + x + ")"
}
func balanced(s string) bool {
	d := 0
	for _, c := range s {
		if c == '(' {
			d++
		} else if c == ')' {
			d--
			if d < 0 {
				return false
			}
		}
	}
	return d == 0
}
func implies(a, b string) string {
	if a == "true" {
		return b
	}
	if a == "false" || b == "true" {
		return "true"
	}
	return "(=> " + a + " " + b + ")"
}
func ite(c, a, b string) string {
	if c == "true" {
		return a
	}
	if c == "false" {
		return b
	}
	if a == b {
		return a
	}
	return "(ite " + c + " " + a + " " + b + ")"
}
func eq(a, b string) string {
	if a == b {
		return "true"
	}
	return "(= " + a + " " + b + ")"
}
func sel(a, i string) string      { return "(select " + a + " " + i + ")" }
func sto(a, i, v string) string   { return "(store " + a + " " + i + " " + v + ")" }
func app(f string, a ...string) string {
	if len(a) == 0 {
		return f
	}
	return "(" + f + " " + strings.Join(a, " ") + ")"
}
func num(n int64) string {
	if n < 0 {
		return fmt.Sprintf("(- %d)", -n)
	}
	return fmt.Sprintf("%d", n)
}
func plus(a, b string) string {
	if b == "0" {
		return a
	}
	if a == "0" {
		return b
	}
	return "(+ " + a + " " + b + ")"
}

// ---------------------------------------------------------------- solver portfolio

type SolverResult struct {
	Verdict string // unsat | sat | unknown | timeout | error
	Solver  string
	MS      int64
	Output  string
	All     map[string]string
}

type solverSpec struct {
	name string
	args func(file string, timeoutS int) []string
}

var solvers = []solverSpec{
	{"z3", func(f string, t int) []string { return []string{"z3", fmt.Sprintf("-T:%d", t), f} }},
	{"z3-new", func(f string, t int) []string { return []string{"z3-new", fmt.Sprintf("-T:%d", t), f} }},
	{"cvc5", func(f string, t int) []string {
		return []string{"cvc5", "--incremental", fmt.Sprintf("--tlimit=%d", t*1000), f}
	}},
}

var solverSem = make(chan struct{}, 16)

// RunSolvers races the portfolio on one file. If all is true every solver runs to completion
// (thorough tier agreement check); otherwise the first definite answer wins.
func RunSolvers(file string, timeoutS int, all bool) SolverResult {
	ctx, cancel := context.WithCancel(context.Background())
	defer cancel()
	type r1 struct {
		name, verdict, out string
		ms               int64
	}
	ch := make(chan r1, len(solvers))
	var wg sync.WaitGroup
	for _, s := range solvers {
		s := s
		wg.Add(1)
		go func() {
			defer wg.Done()
			solverSem <- struct{}{}
			defer func() { <-solverSem }()
			if ctx.Err() != nil {
				ch <- r1{s.name, "cancelled", "", 0}
				return
			}
			a := s.args(file, timeoutS)
			c2, cancel2 := context.WithTimeout(ctx, time.Duration(timeoutS+2)*time.Second)
			defer cancel2()
			cmd := exec.CommandContext(c2, a[0], a[1:]...)
			var out bytes.Buffer
			cmd.Stdout = &out
			cmd.Stderr = &out
			t0 := time.Now()
			_ = cmd.Run()
			ms := time.Since(t0).Milliseconds()
			o := out.String()
			first := strings.TrimSpace(strings.SplitN(o, "\n", 2)[0])
			v := "unknown"
			switch {
			case first == "unsat":
				v = "unsat"
			case first == "sat":
				v = "sat"
			case first == "timeout" || c2.Err() == context.DeadlineExceeded:
				v = "timeout"
			case ctx.Err() != nil:
				v = "cancelled"
			case strings.Contains(first, "error") || strings.HasPrefix(first, "(error"):
				v = "error"
			}
			ch <- r1{s.name, v, o, ms}
		}()
	}
	go func() { wg.Wait(); close(ch) }()
	res := SolverResult{Verdict: "unknown", All: map[string]string{}}
	for r := range ch {
		res.All[r.name] = r.verdict
		if r.verdict == "unsat" || r.verdict == "sat" {
			if res.Verdict != "unsat" && res.Verdict != "sat" {
				res.Verdict, res.Solver, res.MS, res.Output = r.verdict, r.name, r.ms, r.out
				if !all {
					cancel()
				}
			} else if res.Verdict != r.verdict {
				res.Verdict = "disagree"
			}
		} else if res.Solver == "" {
			if r.verdict == "timeout" && res.Verdict == "unknown" {
				res.Verdict = "timeout"
			}
			if r.verdict == "error" && res.Output == "" {
				res.Output = r.out
			}
			if r.ms > res.MS {
				res.MS = r.ms
			}
		}
	}
	return res
}

func writeFile(path string, data string) error {
	if err := os.MkdirAll(filepath.Dir(path), 0o755); err != nil {
		return err
	}
	return os.WriteFile(path, []byte(data), 0o644)
}
