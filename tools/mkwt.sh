#!/bin/bash
# usage: mkwt.sh <name>   -- scratch worktree of /repo HEAD at /tmp/wt/<name> for a seeding sub-agent.
# The comment-only contract files (zz_verif_contracts.go) are removed and that removal is committed on
# the detached HEAD of the worktree, so the sub-agent sees nothing of the verification machinery and
# `git diff` in the worktree is exactly its change (applies to /repo unchanged: disjoint files).
set -e
name=$1
wt=/tmp/wt/$name
mkdir -p /tmp/wt
git -C /repo worktree add --detach "$wt" HEAD >/dev/null 2>&1
cd "$wt"
find . -name zz_verif_contracts.go -print0 | xargs -0 git rm -q
git -c user.name=scratch -c user.email=scratch@example.invalid commit -q -m "scratch base (contracts removed)"
mkdir -p "$wt/SEED"
[ -f /tmp/buildshim/overlay.json ] || { mkdir -p /tmp/buildshim; cp /verif/work/shim/*.go /tmp/buildshim/; sed 's#/verif/work/shim/#/tmp/buildshim/#g' /verif/work/shim/overlay.json > /tmp/buildshim/overlay.json; }
echo "$wt"
