package miner

// Reproduction test for C31: forged / duplicated verification tickets that
// arrive ATTACHED to a block proposal make the receiving miner treat the
// block as notarized.
//
// The test drives the REAL (*miner.Chain).processVerifyBlock (the function the
// BlockVerifyWorkers call for every block proposal received over
// /v1/_m2m/block/verify). Nothing of the protocol code is mocked: only the
// network senders (package level func variables) are replaced by recording
// stubs so that nothing touches the network.

import (
	"context"
	"fmt"
	"strings"
	"sync"
	"testing"
	"time"

	"0chain.net/chaincore/block"
	"0chain.net/chaincore/chain"
	"0chain.net/chaincore/node"
	"0chain.net/chaincore/round"
	"0chain.net/core/common"
	"0chain.net/core/config"
	"0chain.net/core/datastore"
	"0chain.net/core/encryption"
	"0chain.net/core/memorystore"
	"github.com/0chain/common/core/logging"
	"github.com/0chain/common/core/statecache"
	"github.com/0chain/common/core/util"
	"go.uber.org/zap"
	"go.uber.org/zap/zaptest/observer"
)

const (
	c31NumMiners = 4  // magic block: 4 miners
	c31Threshold = 66 // server_chain.block.consensus.threshold_by_count (docker.local/config/0chain.yaml)
	c31RRS       = int64(839695260482366273)
)

// c31Sends records what the node tried to broadcast.
type c31Sends struct {
	mu            sync.Mutex
	notarizations []*Notarization // entities handed to BlockNotarizationSender
	other         int
}

func (s *c31Sends) notarizationFor(hash string) *Notarization {
	s.mu.Lock()
	defer s.mu.Unlock()
	for _, n := range s.notarizations {
		if n.BlockID == hash {
			return n
		}
	}
	return nil
}

type c31Env struct {
	mc      *Chain
	mr      *Round
	gb      *block.Block
	miners  []*node.Node
	keys    []*encryption.BLS0ChainScheme // private keys, index aligned with miners
	sends   *c31Sends
	logs    *observer.ObservedLogs
	cleanup func()
}

// c31Setup builds a fresh miner chain: 4 miners with real BLS keys in the
// magic block, this node is miner[0], a genesis-like notarized/finalized block
// of round 0 with a computed (in-memory MPT) state, and a started round 1 with
// the VRF complete (random seed set).
func c31Setup(t *testing.T) *c31Env {
	t.Helper()

	core, logs := observer.New(zap.DebugLevel)
	logging.Logger = zap.New(core)
	logging.N2n = zap.NewNop()
	logging.MemUsage = zap.NewNop()
	logging.HCLogger = zap.NewNop()

	ctx, cancel := context.WithCancel(context.Background())
	common.SetupRootContext(ctx)
	config.SetServerChainID(config.GetMainChainID())

	block.SetupEntity(memorystore.GetStorageProvider())
	block.SetupBlockSummaryEntity(memorystore.GetStorageProvider())
	round.SetupEntity(memorystore.GetStorageProvider())
	SetupNotarizationEntity()

	env := &c31Env{sends: &c31Sends{}, logs: logs}

	// --- miners with real BLS keys --------------------------------------
	pool := node.NewPool(node.NodeTypeMiner)
	for i := 0; i < c31NumMiners; i++ {
		ss := encryption.NewBLS0ChainScheme()
		if err := ss.GenerateKeys(); err != nil {
			t.Fatalf("setup: generate keys: %v", err)
		}
		n := node.Provider()
		n.Type = node.NodeTypeMiner
		n.Host = "127.0.0.1"
		n.N2NHost = "127.0.0.1"
		n.Port = 1 // never dialled: senders are stubbed
		n.Status = node.NodeStatusActive
		n.SetIndex = i
		n.SetSignatureSchemeType(encryption.SignatureSchemeBls0chain)
		if err := n.SetPublicKey(ss.GetPublicKey()); err != nil {
			t.Fatalf("setup: set public key: %v", err)
		}
		if err := pool.AddNode(n); err != nil {
			t.Fatalf("setup: add node: %v", err)
		}
		env.miners = append(env.miners, n)
		env.keys = append(env.keys, ss)
	}
	node.Self = &node.SelfNode{}
	node.Self.Node = env.miners[0]
	if err := node.Self.SetSignatureScheme(env.keys[0]); err != nil {
		t.Fatalf("setup: self signature scheme: %v", err)
	}

	// --- chain -----------------------------------------------------------
	c := chain.Provider().(*chain.Chain)
	c.ID = datastore.ToKey(config.GetServerChainID())
	c.ChainConfig = chain.NewConfigImpl(&chain.ConfigData{
		ThresholdByCount:      c31Threshold,
		ThresholdByStake:      0,
		MinGenerators:         2,
		GeneratorsPercent:     0.2,
		ClientSignatureScheme: encryption.SignatureSchemeBls0chain,
		BlocksToSharder:       chain.FINALIZED,
	})
	c.BlocksToSharder = chain.FINALIZED
	chain.SetServerChain(c)
	SetupMinerChain(c)
	mc := GetMinerChain()
	mc.SetupStateCache()
	env.mc = mc

	mb := block.NewMagicBlock()
	mb.Miners = pool
	mb.Sharders = node.NewPool(node.NodeTypeSharder)
	mb.StartingRound = 0
	mb.MagicBlockNumber = 1
	mb.N = c31NumMiners
	mb.K = 3
	mb.T = 3
	mb.Hash = mb.GetHash()
	mc.SetMagicBlock(mb)

	lfmbDone := make(chan struct{})
	go func() {
		mc.StartLFMBWorker(ctx)
		close(lfmbDone)
	}()

	// --- network stubs -----------------------------------------------------
	record := func(kind string) node.EntitySendHandler {
		return func(e datastore.Entity) node.SendHandler {
			env.sends.mu.Lock()
			if n, ok := e.(*Notarization); ok && kind == "notarization" {
				env.sends.notarizations = append(env.sends.notarizations, n)
			} else {
				env.sends.other++
			}
			env.sends.mu.Unlock()
			return func(context.Context, *node.Node) bool { return true }
		}
	}
	RoundVRFSender = record("vrf")
	VerifyBlockSender = record("verify_block")
	VerificationTicketSender = record("ticket")
	BlockNotarizationSender = record("notarization")
	MinerNotarizedBlockSender = record("m_notarized_block")
	NotarizedBlockSender = record("s_notarized_block")
	FinalizedBlockSender = record("s_finalized_block")
	NotarizedBlockForcePushSender = record("s_notarized_block_push")

	// --- genesis-like block of round 0 with computed state -------------------
	mpt := util.NewMerklePatriciaTrie(util.NewMemoryNodeDB(), util.Sequence(0), nil, statecache.NewEmpty())
	if _, err := mpt.Insert(util.Path(encryption.Hash("c31")), &util.SecureSerializableValue{Buffer: []byte("c31")}); err != nil {
		t.Fatalf("setup: mpt insert: %v", err)
	}
	gb := block.NewBlock(c.GetKey(), 0)
	gb.Hash = encryption.Hash("c31 genesis")
	gb.ClientState = mpt
	gb.ClientStateHash = mpt.GetRoot()
	gb.SetStateStatus(block.StateSuccessful)
	gb.SetBlockState(block.StateNotarized)
	gb.SetBlockNotarized()
	gb.SetRoundRandomSeed(1)
	gb.MagicBlock = mb
	mc.SetLatestFinalizedMagicBlock(gb)
	mc.Chain.SetLatestFinalizedBlock(gb)
	mc.SetLatestDeterministicBlock(gb)
	mc.AddBlock(gb)
	env.gb = gb

	// --- round 1, VRF complete ---------------------------------------------
	mr := mc.CreateRound(round.NewRound(1))
	mr = mc.AddRound(mr).(*Round)
	mc.SetCurrentRound(1)
	if !mc.SetRandomSeed(mr, c31RRS) {
		t.Fatalf("setup: could not set round random seed")
	}
	env.mr = mr

	env.cleanup = func() {
		cancel()
		select {
		case <-lfmbDone:
		case <-time.After(2 * time.Second):
		}
	}
	return env
}

// proposal builds a syntactically valid round-1 block proposal generated and
// CORRECTLY signed by the (byzantine) generator miner[gen]; then attaches the
// given verification tickets and pushes the block through the real wire codec
// (msgpack, as used by VerifyBlockSender) so that the receiving side only sees
// what really travels over the network.
func (env *c31Env) proposal(t *testing.T, gen int, seedSalt string, tickets []*block.VerificationTicket) *block.Block {
	t.Helper()
	b := block.NewBlock(env.mc.GetKey(), 1)
	b.MinerID = env.miners[gen].GetKey()
	b.PrevHash = env.gb.Hash
	b.CreationDate = common.Now()
	b.SetRoundRandomSeed(c31RRS)
	b.ClientStateHash = env.gb.ClientStateHash // no txns: state root unchanged
	b.LatestFinalizedMagicBlockHash = env.gb.Hash
	b.LatestFinalizedMagicBlockRound = 0
	b.RoundTimeoutCount = 0
	b.RunningTxnCount = int64(len(seedSalt)) // not hashed, irrelevant
	b.HashBlock()
	sig, err := env.keys[gen].Sign(b.Hash)
	if err != nil {
		t.Fatalf("proposal: sign: %v", err)
	}
	b.Signature = sig
	b.VerificationTickets = tickets

	wire := datastore.ToMsgpack(b)
	rb := datastore.GetEntityMetadata("block").Instance().(*block.Block)
	if err := datastore.FromMsgpack(wire.Bytes(), rb); err != nil {
		t.Fatalf("proposal: msgpack round trip: %v", err)
	}
	if len(rb.VerificationTickets) != len(tickets) {
		t.Fatalf("proposal: attached tickets did not survive the wire codec: sent %d, got %d",
			len(tickets), len(rb.VerificationTickets))
	}
	return rb
}

func (env *c31Env) logMessages(substr string) (out []string) {
	for _, e := range env.logs.All() {
		if strings.Contains(e.Message, substr) {
			out = append(out, e.Message)
		}
	}
	return
}

type c31Outcome struct {
	name             string
	err              error
	notarized        bool // b.IsBlockNotarized()
	inRoundNotarized bool // block is in round.GetNotarizedBlocks()
	blockState       int8
	ticketsOK        error // result of the real mc.VerifyTickets on the attached tickets
	broadcast        bool  // node broadcast a Notarization for it
	roundPhase       round.Phase
	mergeLog         bool
	nTickets         int
}

func (o c31Outcome) String() string {
	return fmt.Sprintf("%-34s tickets=%d VerifyTickets(attached)=%v | processVerifyBlock err=%v IsBlockNotarized=%v inRoundNotarizedBlocks=%v blockState=%d(StateNotarized=%d) notarizationBroadcast=%v roundPhase=%v log'reached notarization - merging tickets'=%v",
		o.name, o.nTickets, o.ticketsOK, o.err, o.notarized, o.inRoundNotarized, o.blockState, block.StateNotarized, o.broadcast, o.roundPhase, o.mergeLog)
}

// c31Run creates a fresh environment, builds the block via mk and feeds it to
// the real processVerifyBlock.
func c31Run(t *testing.T, name string, mk func(env *c31Env) []*block.VerificationTicket) c31Outcome {
	t.Helper()
	env := c31Setup(t)
	defer env.cleanup()

	const gen = 1 // byzantine generator: miner[1]; this node is miner[0]
	tickets := mk(env)
	b := env.proposal(t, gen, name, tickets)

	// sanity: the proposal itself is well formed and correctly signed by a
	// real miner of the magic block, i.e. it passes everything the receive
	// path checks before looking at tickets.
	if err := b.Validate(context.Background()); err != nil {
		t.Fatalf("%s: harness bug, block does not validate: %v", name, err)
	}
	if b.IsBlockNotarized() {
		t.Fatalf("%s: harness bug, block is notarized before being processed", name)
	}

	out := c31Outcome{name: name, nTickets: len(tickets)}

	// what the REAL ticket verification says about the attached tickets
	vctx, vcancel := context.WithTimeout(context.Background(), 5*time.Second)
	out.ticketsOK = env.mc.VerifyTickets(vctx, b.Hash, b.GetVerificationTickets(), b.Round)
	vcancel()

	ctx, cancel := context.WithTimeout(context.Background(), 10*time.Second)
	defer cancel()
	done := make(chan error, 1)
	go func() { done <- env.mc.processVerifyBlock(ctx, b) }()
	select {
	case out.err = <-done:
	case <-time.After(12 * time.Second):
		t.Fatalf("%s: processVerifyBlock did not return in 12s", name)
	}

	// SendNotarization runs in a goroutine; give it a moment.
	deadline := time.Now().Add(2 * time.Second)
	for time.Now().Before(deadline) {
		if env.sends.notarizationFor(b.Hash) != nil {
			break
		}
		if !b.IsBlockNotarized() {
			break
		}
		time.Sleep(20 * time.Millisecond)
	}

	out.notarized = b.IsBlockNotarized()
	for _, nb := range env.mr.GetNotarizedBlocks() {
		if nb.Hash == b.Hash {
			out.inRoundNotarized = true
		}
	}
	if cb, err := env.mc.GetBlock(context.Background(), b.Hash); err == nil && cb != nil {
		out.blockState = cb.GetBlockState()
		if cb.IsBlockNotarized() {
			out.notarized = true
		}
	}
	out.broadcast = env.sends.notarizationFor(b.Hash) != nil
	out.roundPhase = env.mr.GetPhase()
	out.mergeLog = len(env.logMessages("reached notarization - merging tickets")) > 0
	return out
}

func TestVerifReplay_C31_forged_attached_tickets(t *testing.T) {
	garbageSig := func(env *c31Env, signer int, what string) string {
		// a well-formed BLS signature, but over a DIFFERENT message, so it can
		// never verify against the block hash.
		s, err := env.keys[signer].Sign(encryption.Hash("not the block hash " + what))
		if err != nil {
			t.Fatalf("sign: %v", err)
		}
		return s
	}

	// notarization threshold for 4 miners at 66% is ceil(2.64) = 3 tickets.
	const need = 3

	var outcomes []c31Outcome

	// control: only ONE ticket attached -> must not be notarized. Shows that
	// the harness can tell the difference and the count threshold is active.
	control := c31Run(t, "control/one-ticket", func(env *c31Env) []*block.VerificationTicket {
		return []*block.VerificationTicket{
			{VerifierID: env.miners[1].GetKey(), Signature: garbageSig(env, 1, "control")},
		}
	})
	t.Log(control.String())
	if control.notarized || control.inRoundNotarized {
		t.Fatalf("harness problem: control block with a single ticket was treated as notarized: %s", control)
	}

	// A: distinct REAL miners of the round as verifier ids, but the signatures
	// are forged by the generator (it signs a different message with its own
	// key). None of them verifies.
	outcomes = append(outcomes, c31Run(t, "A/forged-signatures-real-ids", func(env *c31Env) []*block.VerificationTicket {
		var vts []*block.VerificationTicket
		for i := 0; i < need; i++ {
			// verifier ids: miner[0] (the victim itself!), miner[2], miner[3]
			id := []int{0, 2, 3}[i]
			vts = append(vts, &block.VerificationTicket{
				VerifierID: env.miners[id].GetKey(),
				Signature:  garbageSig(env, 1, fmt.Sprint("A", i)),
			})
		}
		return vts
	}))

	// B: the generator's own, VALID ticket, simply repeated threshold times.
	outcomes = append(outcomes, c31Run(t, "B/same-verifier-repeated", func(env *c31Env) []*block.VerificationTicket {
		// the block hash is not known yet here; proposal() computes it. The
		// hash does not depend on tickets, so pre-compute it the same way.
		probe := env.proposal(t, 1, "probe", nil)
		sig, err := env.keys[1].Sign(probe.Hash)
		if err != nil {
			t.Fatalf("sign: %v", err)
		}
		var vts []*block.VerificationTicket
		for i := 0; i < need; i++ {
			vts = append(vts, &block.VerificationTicket{VerifierID: env.miners[1].GetKey(), Signature: sig})
		}
		return vts
	}))

	// C: verifier ids that are not miners of the round at all.
	outcomes = append(outcomes, c31Run(t, "C/unknown-verifiers", func(env *c31Env) []*block.VerificationTicket {
		var vts []*block.VerificationTicket
		for i := 0; i < need; i++ {
			vts = append(vts, &block.VerificationTicket{
				VerifierID: encryption.Hash(fmt.Sprint("nobody ", i)),
				Signature:  garbageSig(env, 1, fmt.Sprint("C", i)),
			})
		}
		return vts
	}))

	var bad []string
	for _, o := range outcomes {
		t.Log(o.String())
		if o.ticketsOK == nil && !strings.HasPrefix(o.name, "B/") {
			t.Fatalf("harness problem: attached tickets of %s unexpectedly verify", o.name)
		}
		if o.notarized || o.inRoundNotarized {
			bad = append(bad, o.String())
		}
	}
	if len(bad) > 0 {
		t.Fatalf("C31 REPRODUCED: processVerifyBlock accepted %d/%d block proposals as NOTARIZED on the strength of forged/duplicated verification tickets attached to the proposal itself (tickets are only counted, never verified):\n  %s",
			len(bad), len(outcomes), strings.Join(bad, "\n  "))
	}
}
