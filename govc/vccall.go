package main

import (
	"fmt"
	"go/types"
	"os"
	"strings"

	"golang.org/x/tools/go/ssa"
)

// effect-free callees: their calls do not change the modelled heap; results are fresh.
var noEffectPrefixes = []string{
	"(*go.uber.org/zap.Logger).", "go.uber.org/zap.", "(*go.uber.org/zap.SugaredLogger).",
	"fmt.Sprintf", "fmt.Sprint", "fmt.Errorf", "fmt.Sprintln", "fmt.Println", "fmt.Printf", "errors.New",
	"github.com/0chain/common/core/common.NewError", "0chain.net/core/common.NewError",
	"0chain.net/core/common.NewErrorf", "github.com/0chain/common/core/common.NewErrorf",
	"0chain.net/core/common.NewErrInternal", "0chain.net/core/common.NewErrBadRequest", "0chain.net/core/common.NewErrNoResource",
	"time.Now", "time.Since", "(time.Time).", "(time.Duration).", "time.NewTimer", "(*time.Timer).", "time.After", "strconv.", "strings.", "log.", "(*log.Logger).",
	"github.com/rcrowley/go-metrics.", "(*github.com/rcrowley/go-metrics.", "(github.com/rcrowley/go-metrics.",
	"math.", "math/bits.", "sort.SearchInts", "(*sync/atomic.", "sync/atomic.Load",
	"0chain.net/core/encryption.Hash", "0chain.net/core/encryption.RawHash", "0chain.net/core/encryption.IsHash",
	"encoding/hex.EncodeToString", "(*sync.WaitGroup).", "(*sync.Once).",
	"0chain.net/core/common.Now", "0chain.net/core/common.ToTime", "0chain.net/core/common.Within", "0chain.net/core/common.TimeToString",
	"(0chain.net/core/common.Timestamp).", "0chain.net/core/common.ToSeconds", "(*0chain.net/core/common.Error).Error",
	"(*github.com/0chain/common/core/common.Error).Error", "0chain.net/core/util.", "errors.Is", "errors.As", "errors.Unwrap",
	"github.com/pkg/errors.Wrap", "github.com/pkg/errors.New", "github.com/pkg/errors.Errorf", "github.com/pkg/errors.Wrapf",
	"(github.com/0chain/common/core/currency.Coin).", "github.com/0chain/common/core/currency.",
	"0chain.net/core/viper.Get", "0chain.net/core/config.", "(*0chain.net/core/viper.Viper).Get",
	"encoding/json.Marshal", "encoding/hex.", "(*encoding/json.", "bytes.Equal", "bytes.Compare", "unicode.", "unicode/utf8.",
	"(*0chain.net/chaincore/state.Transfer).Encode", "(*0chain.net/chaincore/state.SignedTransfer).Encode",
	"0chain.net/core/datastore.ToJSON", "0chain.net/core/datastore.ToMsgpack", "(*bytes.Buffer).String", "(*bytes.Buffer).Len",
}

// results of these are known to be non-nil
var nonNilResult = []string{"fmt.Errorf", "errors.New", "github.com/0chain/common/core/common.NewError", "0chain.net/core/common.NewError",
	"0chain.net/core/common.NewErrorf", "github.com/0chain/common/core/common.NewErrorf", "github.com/pkg/errors.New", "github.com/pkg/errors.Errorf",
	"0chain.net/core/common.NewErrInternal", "0chain.net/core/common.NewErrBadRequest", "0chain.net/core/common.NewErrNoResource"}

// deterministic (result is an uninterpreted function of the arguments)
var deterministicPrefixes = []string{"fmt.Sprintf", "fmt.Sprint", "strconv.", "strings.", "0chain.net/core/encryption.Hash", "0chain.net/core/common.TimeToString", "github.com/0chain/common/core/currency.ParseZCN",
	"0chain.net/core/encryption.RawHash", "encoding/hex.EncodeToString", "math.", "math/bits.", "(time.Duration).", "(0chain.net/core/common.Timestamp)."}

func hasAnyPrefix(s string, ps []string) bool {
	for _, p := range ps {
		if strings.HasPrefix(s, p) {
			return true
		}
	}
	return false
}

func calleeName(cc *ssa.CallCommon) string {
	if cc.IsInvoke() {
		return "(" + types.TypeString(cc.Value.Type(), nil) + ")." + cc.Method.Name()
	}
	if f := cc.StaticCallee(); f != nil {
		return ssaFuncName(f)
	}
	return ""
}

// ssaFuncName is go/ssa's own naming, e.g. "(*sync.Mutex).Lock", "fmt.Sprintf".
func ssaFuncName(f *ssa.Function) string {
	if f.Origin() != nil {
		return f.Origin().String()
	}
	return f.String()
}

func (vc *VC) callIsPure(cc *ssa.CallCommon) bool {
	n := calleeName(cc)
	if n == "" {
		return false
	}
	if isLockOp(n) != "" {
		return false
	}
	if cc.IsInvoke() {
		// logging through interfaces etc. is not recognised; error.Error() is pure
		return strings.HasSuffix(n, "(error).Error")
	}
	return hasAnyPrefix(n, noEffectPrefixes)
}

func isLockOp(n string) string {
	switch n {
	case "(*sync.Mutex).Lock", "(*sync.RWMutex).Lock":
		return "lock"
	case "(*sync.Mutex).Unlock", "(*sync.RWMutex).Unlock":
		return "unlock"
	case "(*sync.RWMutex).RLock":
		return "rlock"
	case "(*sync.RWMutex).RUnlock":
		return "runlock"
	case "(*sync.Mutex).TryLock", "(*sync.RWMutex).TryLock":
		return "trylock"
	}
	return ""
}

// rwReaderSlot: slot offset of readerCount inside sync.RWMutex (0 for sync.Mutex).
func (vc *VC) rwReaderSlot(t types.Type) int {
	st, ok := t.Underlying().(*types.Struct)
	if !ok {
		return 0
	}
	for i := 0; i < st.NumFields(); i++ {
		if st.Field(i).Name() == "readerCount" {
			off, _ := vc.L.FieldOffset(st, i)
			return off
		}
	}
	return 0
}

func (vc *VC) call(in ssa.Instruction, cc *ssa.CallCommon, h *Heap) []string {
	var resT types.Type
	if v, ok := in.(ssa.Value); ok {
		resT = v.Type()
	} else {
		resT = cc.Signature().Results()
	}
	fresh := func() []string {
		if resT == nil {
			return nil
		}
		r := vc.freshVals("call", resT)
		vc.assumeRanges("true", r, resT, *h)
		return r
	}
	// builtins
	if b, ok := cc.Value.(*ssa.Builtin); ok {
		return vc.builtin(b, cc, h, resT)
	}
	name := calleeName(cc)
	// at-call assertions of the function under contract
	if root := vc.root(); (vc.parent == nil || (root.ct != nil && root.ct.Flags["at-call-inlined"])) && root.ct != nil && (len(root.ct.AtCall) > 0 || len(root.ct.AtCallGhost) > 0) {
		short := ""
		if f := cc.StaticCallee(); f != nil {
			short = f.Name()
		} else if cc.IsInvoke() {
			short = cc.Method.Name()
		} else if p, isP := cc.Value.(*ssa.Parameter); isP {
			short = p.Name() // a call of a function-typed parameter: at-call <param name>
		} else if fv, isFV := cc.Value.(*ssa.FreeVar); isFV {
			short = fv.Name()
		}
		// `at-call Type.Method` selects calls by receiver type too (two callees with one method name)
		if cc.IsInvoke() {
			if n, isN := cc.Value.Type().(*types.Named); isN {
				if _, ok := root.ct.AtCall[n.Obj().Name()+"."+short]; ok {
					short = n.Obj().Name() + "." + short
				}
			}
		} else if f := cc.StaticCallee(); f != nil && f.Signature.Recv() != nil {
			rt := f.Signature.Recv().Type()
			if p, isP := rt.(*types.Pointer); isP {
				rt = p.Elem()
			}
			if n, isN := rt.(*types.Named); isN {
				if _, ok := root.ct.AtCall[n.Obj().Name()+"."+short]; ok {
					short = n.Obj().Name() + "." + short
				}
			}
		}
		_, hasGhostUpd := root.ct.AtCallGhost[short]
		if cls, ok := root.ct.AtCall[short]; (ok || hasGhostUpd) && short != "" {
			ev := vc.newEval(vc.fn, *h, root.heap0, nil)
			blk := in.Block()
			vc.atInstr = in
			ev.resolve = func(n string) (EVal, bool) { return vc.resolveLocalAtBlock(ev, n, blk) }
			// $arg0, $arg1, ... denote the actual arguments of this call (receiver first)
			allArgs := cc.Args
			if cc.IsInvoke() {
				allArgs = append([]ssa.Value{cc.Value}, cc.Args...)
			}
			for ai, a := range allArgs {
				ev.bound[fmt.Sprintf("$arg%d", ai)] = EVal{T: a.Type(), Terms: vc.val(a)}
			}
			for i, c := range cls {
				// a call site where a local named by the assertion does not exist yet (an earlier
				// call of the same callee) is not a target of that assertion
				if _, err := ev.boolExpr(c.E, true); err != nil {
					ev.skolems, ev.hyps = nil, nil
					if strings.Contains(err.Error(), "unknown name") {
						continue
					}
					// the call no longer has the shape the assertion talks about
					vc.addObl(&Obligation{Name: fmt.Sprintf("%s/at-call@%s#%d@%s", root.key, short, i+1, vc.pos(in.Pos())), Kind: "at-call",
						Goal: "false", Pos: vc.pos(in.Pos()), Src: c.Src + "  -- not evaluable at this call: " + err.Error()})
					root.atCallSeen[short]++
					continue
				}
				vc.goalClause(ev, c, fmt.Sprintf("%s/at-call@%s#%d@%s", root.key, short, i+1, vc.pos(in.Pos())), "at-call", vc.curR, vc.pos(in.Pos()))
				root.atCallSeen[short]++
				// assert P; assume P  - once checked, the assertion is a lemma for what follows
				ev.skolems, ev.hyps = nil, nil
				if t, err := ev.boolExpr(c.E, false); err == nil {
					vc.flushSkolems(ev, vc.curR)
					vc.assume(implies(vc.curR, t))
				}
			}
			// accumulator updates: $g += e (e evaluated in the state right before the call)
			for _, gu := range root.ct.AtCallGhost[short] {
				ev.skolems, ev.hyps = nil, nil
				t, err := ev.intExpr(gu.E)
				if err != nil {
					vc.fail("at-call %s ghost %s += %s: %v", short, gu.Label, gu.Src, err)
				}
				cur, gd, okg := vc.ghostHeap(h, gu.Label)
				if !okg || gd.Key != "" || gd.Val != "Int" {
					vc.fail("at-call %s ghost %s: not a declared scalar Int ghost", short, gu.Label)
				}
				h.M["G_"+gu.Label] = vc.define("G_"+sanitize(gu.Label), "Int", "(+ "+cur+" "+t+")")
				root.atCallSeen["ghost:"+short]++
			}
			vc.atInstr = nil
		}
	}
	// mutexes
	if op := isLockOp(name); op != "" {
		a := ptrAddr(vc.val1(cc.Args[0]))
		elem := cc.Args[0].Type().Underlying().(*types.Pointer).Elem()
		wr := a
		rd := a.Plus(vc.rwReaderSlot(elem))
		cur := func(x Addr) string { return sel(sel(sel(h.H[SInt], x.Obj), x.Slot), x.Idx) }
		root := vc.root()
		root.lockOps = append(root.lockOps, a)
		switch op {
		case "lock":
			if root.ct != nil && root.ct.Flags["nodeadlock"] {
				vc.addObl(&Obligation{Name: fmt.Sprintf("%s/nodeadlock@%s", root.key, vc.pos(in.Pos())), Kind: "nodeadlock",
					Goal: implies(vc.curR, and(eq(cur(wr), "0"), eq(cur(rd), "0"))), Pos: vc.pos(in.Pos()), Src: "mutex not already held by this call chain"})
			}
			vc.store(h, wr, types.Typ[types.Int32], []string{"1"})
		case "unlock":
			vc.store(h, wr, types.Typ[types.Int32], []string{"0"})
		case "rlock":
			if root.ct != nil && root.ct.Flags["nodeadlock"] {
				vc.addObl(&Obligation{Name: fmt.Sprintf("%s/nodeadlock@%s", root.key, vc.pos(in.Pos())), Kind: "nodeadlock",
					Goal: implies(vc.curR, eq(cur(wr), "0")), Pos: vc.pos(in.Pos()), Src: "write lock not held by this call chain"})
			}
			vc.store(h, rd, types.Typ[types.Int32], []string{"(+ " + cur(rd) + " 1)"})
		case "runlock":
			vc.store(h, rd, types.Typ[types.Int32], []string{"(- " + cur(rd) + " 1)"})
		case "trylock":
			return fresh()
		}
		return nil
	}
	// sort.Slice / sort.SliceStable / sort.Strings ...: the elements of the slice are rearranged.
	// Model: every element of the result is one of the old elements (same length, same
	// backing array); ordering by the comparator is not modelled.
	if name == "sort.Slice" || name == "sort.SliceStable" || name == "sort.Strings" || name == "sort.Ints" || name == "sort.Sort" || name == "sort.Stable" {
		var sv ssa.Value
		if mi, ok := cc.Args[0].(*ssa.MakeInterface); ok {
			sv = mi.X
		} else if _, isSl := cc.Args[0].Type().Underlying().(*types.Slice); isSl {
			sv = cc.Args[0]
		}
		if sv != nil {
			if st, isSl := sv.Type().Underlying().(*types.Slice); isSl {
				s := vc.val1(sv)
				ls := vc.L.Leaves(st.Elem())
				pre := h.clone()
				lo, hi := "(s_off "+s+")", "(+ (s_off "+s+") (s_len "+s+"))"
				var rows []string
				for i, l := range ls {
					cur := pre.H[l.Sort]
					slot := plus("(s_slot "+s+")", num(int64(i)))
					oldRow := sel(sel(cur, "(s_obj "+s+")"), slot)
					row := vc.declare(vc.fresh("sortrow"), "(Array Int "+innerSort[l.Sort]+")")
					rows = append(rows, row)
					vc.assume(fmt.Sprintf("(forall ((k Int)) (! (=> (not (and (<= %s k) (< k %s))) (= (select %s k) (select %s k))) :pattern ((select %s k))))", lo, hi, row, oldRow, row))
					base := h.H[l.Sort]
					h.H[l.Sort] = vc.define("H"+sortTag[l.Sort], heapSortName(l.Sort), sto(base, "(s_obj "+s+")", sto(sel(base, "(s_obj "+s+")"), slot, row)))
				}
				// permutation witness: new[k] == old[perm(k)] for all leaves, perm maps the range into itself
				perm := vc.fresh("sortperm")
				vc.declareRaw(perm, "(declare-fun "+perm+" (Int) Int)")
				var eqs []string
				for i, l := range ls {
					cur := pre.H[l.Sort]
					slot := plus("(s_slot "+s+")", num(int64(i)))
					eqs = append(eqs, fmt.Sprintf("(= (select %s k) (select %s (%s k)))", rows[i], sel(sel(cur, "(s_obj "+s+")"), slot), perm))
				}
				if len(rows) > 0 {
					vc.assume(fmt.Sprintf("(forall ((k Int)) (! (=> (and (<= %s k) (< k %s)) (and (<= %s (%s k)) (< (%s k) %s) %s)) :pattern ((select %s k))))", lo, hi, lo, perm, perm, hi, strings.Join(eqs, " "), rows[0]))
				}
				// ... and every old element is somewhere in the result (inverse permutation)
				inv := vc.fresh("sortinv")
				vc.declareRaw(inv, "(declare-fun "+inv+" (Int) Int)")
				if len(rows) > 0 {
					var eqs2 []string
					for i, l := range ls {
						cur := pre.H[l.Sort]
						slot := plus("(s_slot "+s+")", num(int64(i)))
						eqs2 = append(eqs2, fmt.Sprintf("(= (select %s (%s j)) (select %s j))", rows[i], inv, sel(sel(cur, "(s_obj "+s+")"), slot)))
					}
					oldRow0 := sel(sel(pre.H[ls[0].Sort], "(s_obj "+s+")"), "(s_slot "+s+")")
					vc.assume(fmt.Sprintf("(forall ((j Int)) (! (=> (and (<= %s j) (< j %s)) (and (<= %s (%s j)) (< (%s j) %s) %s)) :pattern ((select %s j))))", lo, hi, lo, inv, inv, hi, strings.Join(eqs2, " "), oldRow0))
				}
				// a sort permutes: distinct positions come from distinct positions
				vc.assume(fmt.Sprintf("(forall ((k1 Int) (k2 Int)) (! (=> (and (<= %s k1) (< k1 %s) (<= %s k2) (< k2 %s) (not (= k1 k2))) (not (= (%s k1) (%s k2)))) :pattern ((%s k1) (%s k2))))", lo, hi, lo, hi, perm, perm, perm, perm))
				if !vc.applySortSpec(in, cc, sv, pre, h) {
					vc.note("sort.*: result elements are old elements (ordering by the comparator not modelled: no `sorted ... by` clause for this call)")
				}
				return nil
			}
		}
	}
	// sync/atomic on plain integers: sequential semantics
	if strings.HasPrefix(name, "sync/atomic.") {
		op := strings.TrimPrefix(name, "sync/atomic.")
		if len(cc.Args) >= 1 {
			if pt, ok := cc.Args[0].Type().Underlying().(*types.Pointer); ok && isInteger(pt.Elem()) {
				a := ptrAddr(vc.val1(cc.Args[0]))
				cur := vc.load(*h, a, pt.Elem())[0]
				switch {
				case strings.HasPrefix(op, "Load"):
					r := vc.define("atomic", "Int", cur)
					vc.assumeLoadRanges([]string{r}, pt.Elem(), *h)
					return []string{r}
				case strings.HasPrefix(op, "Store"):
					vc.store(h, a, pt.Elem(), []string{vc.val1(cc.Args[1])})
					return nil
				case strings.HasPrefix(op, "Add"):
					nv := vc.define("atomic", "Int", vc.wrap("(+ "+cur+" "+vc.val1(cc.Args[1])+")", pt.Elem()))
					vc.store(h, a, pt.Elem(), []string{nv})
					return []string{nv}
				case strings.HasPrefix(op, "Swap"):
					old := vc.define("atomic", "Int", cur)
					vc.store(h, a, pt.Elem(), []string{vc.val1(cc.Args[1])})
					return []string{old}
				case strings.HasPrefix(op, "CompareAndSwap"):
					okT := vc.define("cas", "Bool", eq(cur, vc.val1(cc.Args[1])))
					vc.store(h, a, pt.Elem(), []string{ite(okT, vc.val1(cc.Args[2]), cur)})
					return []string{okT}
				}
			}
		}
	}
	var callee *ssa.Function
	var closure *ssa.MakeClosure
	if mc, ok := cc.Value.(*ssa.MakeClosure); ok {
		closure = mc
		callee = mc.Fn.(*ssa.Function)
	} else if cr, ok := vc.closureArgs[cc.Value]; ok && !cc.IsInvoke() {
		closure = cr.mc
		callee = cr.mc.Fn.(*ssa.Function)
		vc.bindVC = cr.owner
		defer func() { vc.bindVC = nil }()
	} else {
		callee = cc.StaticCallee()
	}
	// strings.Builder: the accumulated text is ghost state $sb[object]; WriteString appends,
	// String reads it. (A zero Builder holds the empty string: see instr Alloc.)
	if strings.HasPrefix(name, "(*strings.Builder).") && len(cc.Args) >= 1 {
		recv := ptrAddr(vc.val1(cc.Args[0]))
		gname, g, ok := vc.ghostHeap(h, "$sb")
		if ok {
			cur := sel(gname, recv.Obj)
			switch strings.TrimPrefix(name, "(*strings.Builder).") {
			case "WriteString":
				h.M["G_$sb"] = vc.define("G__sb", g.SMTSort(), sto(gname, recv.Obj, "(str_concat "+cur+" "+vc.val1(cc.Args[1])+")"))
				r := fresh()
				return r
			case "String":
				return []string{cur}
			case "Len":
				return []string{"(str_len " + cur + ")"}
			case "Reset":
				h.M["G_$sb"] = vc.define("G__sb", g.SMTSort(), sto(gname, recv.Obj, "str_empty"))
				return nil
			}
		}
	}
	// callees the contract under verification declares opaque: unknown code
	if root := vc.root(); root.ct != nil && (vc.parent == nil || root.ct.Flags["at-call-inlined"]) && len(root.ct.Opaque) > 0 {
		sn := ""
		if callee != nil {
			sn = callee.Name()
		} else if cc.IsInvoke() {
			sn = cc.Method.Name()
		}
		if sn != "" && root.ct.Opaque[sn] {
			vc.havocCall(h, "callee "+sn+" declared opaque at "+vc.pos(in.Pos()), in)
			return fresh()
		}
	}
	// contract on the callee?
	if callee != nil {
		key := funcKey(callee)
		if callee.Origin() != nil {
			key = funcKey(callee.Origin())
		}
		// inline-all: verified callees are inlined instead of being replaced by their contracts
		// (trusted / assumed contracts are still used - there is no body to fall back on)
		if ct, ok := vc.CS.Funcs[key]; ok && !(vc.root().ct != nil && vc.root().ct.Flags["inline-all"] && ct.Kind == "func" && !ct.Flags["trusted"] && vc.canInline(callee)) {
			return vc.useContract(in, ct, callee.Signature, calleeParamNames(callee, ct), cc.Args, h, resT)
		}
	}
	if cc.IsInvoke() {
		key := ifaceKey(cc)
		ct, ok := vc.CS.Funcs[key]
		if !ok {
			// the method may be declared by an interface embedded in (or embedding) the static
			// type: fall back to the unique iface contract for that method name in the package
			if n, isN := cc.Value.Type().(*types.Named); isN && n.Obj().Pkg() != nil {
				var found *FuncContract
				cnt := 0
				for _, k := range sortedKeys(vc.CS.Funcs) {
					c := vc.CS.Funcs[k]
					if c.Kind == "iface" && strings.HasPrefix(c.Pkg, n.Obj().Pkg().Path()+".") && c.Name == cc.Method.Name() {
						found = c
						cnt++
					}
				}
				if cnt == 1 {
					ct, ok = found, true
				}
			}
		}
		if ok {
			args := append([]ssa.Value{cc.Value}, cc.Args...)
			return vc.useContract(in, ct, cc.Signature(), ifaceParamNames(cc, ct), args, h, resT)
		}
		if strings.HasSuffix(name, "(error).Error") || hasAnyPrefix(name, noEffectPrefixes) {
			return fresh()
		}
		vc.root().callees["iface:"+key] = true
		vc.havocCall(h, "uncontracted interface call "+key+" at "+vc.pos(in.Pos()), in)
		return fresh()
	}
	if strings.HasPrefix(name, "(*go.uber.org/zap.Logger).") {
		switch strings.TrimPrefix(name, "(*go.uber.org/zap.Logger).") {
		case "Panic", "Fatal":
			vc.panicSite(in.Pos(), "logging.Logger."+strings.TrimPrefix(name, "(*go.uber.org/zap.Logger)."))
			vc.curR = "false"
			return fresh()
		case "DPanic":
			// panics only in development builds: a panic site for nopanic, but execution continues
			vc.panicSite(in.Pos(), "logging.Logger.DPanic")
		}
	}
	if name != "" && hasAnyPrefix(name, noEffectPrefixes) {
		return vc.effectFree(name, cc, h, resT)
	}
	if callee != nil && vc.canInline(callee) {
		return vc.inline(in, callee, closure, cc.Args, h, resT)
	}
	if callee != nil {
		vc.root().callees["havoc:"+funcKey(callee)] = true
		vc.havocCall(h, "uncontracted call "+funcKey(callee)+" at "+vc.pos(in.Pos()), in)
	} else {
		var keep []string
		if p, isP := cc.Value.(*ssa.Parameter); isP && vc.parent == nil && vc.ct != nil {
			keep = vc.ct.Callbacks[p.Name()]
			if os.Getenv("GOVC_DEBUG_CB") != "" {
				fmt.Fprintf(os.Stderr, "callback %s: %v (all %v)\n", p.Name(), keep, vc.ct.Callbacks)
			}
			if len(keep) > 0 {
				vc.root().assumed["callback "+p.Name()+" of "+vc.key+" assumed to preserve ghost state "+strings.Join(keep, ", ")] = true
			}
		}
		// `dynamic <variable> preserves <lvalue>, ...`: the function value held by that local variable
		// (an entry of a dispatch table) is ASSUMED to leave the listed locations unchanged; each table
		// entry is expected to be verified against a frame that excludes them (listed in the evidence)
		var kept []Clause
		var pre Heap
		var ev *Eval
		if root := vc.root(); vc.parent == nil && root.ct != nil && len(root.ct.Dynamic) > 0 {
			for name, cls := range root.ct.Dynamic {
				if ssaValueNamed(vc.fn, cc.Value, name) {
					kept = cls
					root.assumed["dynamic call of "+name+" in "+vc.key+" assumed to preserve "+clauseSrcs(cls)+" (to be discharged by the frames of the dispatch table's entries)"] = true
					root.atCallSeen["dynamic:"+name]++
				}
			}
			if len(kept) > 0 {
				pre = h.clone()
				ev = vc.newEval(vc.fn, pre, vc.heap0, nil)
				blk := in.Block()
				vc.atInstr = in
				ev.resolve = func(n string) (EVal, bool) { return vc.resolveLocalAtBlock(ev, n, blk) }
			}
		}
		var before [][]string
		for _, c := range kept {
			v, err := ev.expr(c.E)
			if err != nil {
				vc.fail("dynamic ... preserves %s: %v", c.Src, err)
			}
			before = append(before, ev.rv(v))
		}
		vc.havocCall(h, "dynamic call at "+vc.pos(in.Pos()), in, keep...)
		for i, c := range kept {
			ev.cur = h.clone()
			v, err := ev.expr(c.E)
			if err != nil {
				vc.fail("dynamic ... preserves %s: %v", c.Src, err)
			}
			after := ev.rv(v)
			for k := range after {
				if k < len(before[i]) {
					vc.assume(implies(vc.curR, eq(after[k], before[i][k])))
				}
			}
		}
		vc.atInstr = nil
		// `dynamic <variable> failure $g`: the Bool ghost records whether the call returned an error
		if root := vc.root(); vc.parent == nil && root.ct != nil && len(root.ct.DynamicFail) > 0 {
			for name, g := range root.ct.DynamicFail {
				if !ssaValueNamed(vc.fn, cc.Value, name) {
					continue
				}
				res := fresh()
				if len(res) == 0 {
					vc.fail("dynamic %s failure %s: the call has no result", name, g)
				}
				gd, ok := vc.CS.Ghosts[g]
				if !ok || gd.Key != "" || gd.Val != "Bool" {
					vc.fail("dynamic %s failure %s: %s must be declared `ghost %s Bool`", name, g, g, g)
				}
				root.atCallSeen["dynamic:"+name]++
				h.M["G_"+g] = vc.define("G_"+sanitize(g), "Bool", not(eq(res[len(res)-1], "niliface")))
				return res
			}
		}
	}
	return fresh()
}

func ifaceKey(cc *ssa.CallCommon) string {
	t := cc.Value.Type()
	if n, ok := t.(*types.Named); ok && n.Obj().Pkg() != nil {
		return n.Obj().Pkg().Path() + "." + n.Obj().Name() + "." + cc.Method.Name()
	}
	return types.TypeString(t, nil) + "." + cc.Method.Name()
}

func calleeParamNames(f *ssa.Function, ct *FuncContract) []string {
	if len(ct.Params) > 0 {
		return ct.Params
	}
	var out []string
	if len(f.Params) > 0 {
		for _, p := range f.Params {
			out = append(out, p.Name())
		}
		return out
	}
	sig := f.Signature
	if sig.Recv() != nil {
		out = append(out, sig.Recv().Name())
	}
	for i := 0; i < sig.Params().Len(); i++ {
		out = append(out, sig.Params().At(i).Name())
	}
	return out
}

func ifaceParamNames(cc *ssa.CallCommon, ct *FuncContract) []string {
	if len(ct.Params) > 0 {
		return ct.Params
	}
	out := []string{"self"}
	sig := cc.Signature()
	for i := 0; i < sig.Params().Len(); i++ {
		n := sig.Params().At(i).Name()
		if n == "" || n == "_" {
			n = fmt.Sprintf("arg%d", i)
		}
		out = append(out, n)
	}
	return out
}

func (vc *VC) effectFree(name string, cc *ssa.CallCommon, h *Heap, resT types.Type) []string {
	if resT == nil {
		return nil
	}
	ls := vc.L.Leaves(resT)
	var r []string
	if hasAnyPrefix(name, deterministicPrefixes) && len(ls) >= 1 {
		var args []string
		var sorts []string
		for _, a := range cc.Args {
			// a value boxed just for this call (f(interface{}(x))): the function depends on x, not
			// on the identity of the box
			if mi, isMI := a.(*ssa.MakeInterface); isMI {
				a = mi.X
			}
			al := vc.L.Leaves(a.Type())
			av := vc.val(a)
			if _, isSl := a.Type().Underlying().(*types.Slice); isSl && len(al) == 1 {
				// variadic []interface{}: use the element values if we built the slice from a literal
				if elems := vc.sliceLiteralElems(a, h); elems != nil {
					for _, e := range elems {
						args = append(args, e)
						sorts = append(sorts, "Iface")
					}
					continue
				}
			}
			for i, l := range al {
				args = append(args, av[i])
				sorts = append(sorts, l.Sort.SMT())
			}
		}
		for i, l := range ls {
			fn := fmt.Sprintf("det_%s_%d_%s", sanitize(name), i, sanitize(strings.Join(sorts, "")))
			vc.declareRaw(fn, "(declare-fun "+fn+" ("+strings.Join(sorts, " ")+") "+l.Sort.SMT()+")")
			r = append(r, app(fn, args...))
		}
	} else {
		r = vc.freshVals("call", resT)
	}
	vc.assumeRanges("true", r, resT, *h)
	if hasAnyPrefix(name, nonNilResult) && len(ls) == 1 {
		switch ls[0].Sort {
		case SIface:
			vc.assume(not(eq(r[0], "niliface")))
		case SPtr:
			vc.assume(not(eq("(p_obj "+r[0]+")", "0")))
		}
	}
	return r
}

// sliceLiteralElems recognises `slice (new [n]T)[:]` built just before a variadic call and
// returns the current contents of its elements.
func (vc *VC) sliceLiteralElems(a ssa.Value, h *Heap) []string {
	sl, ok := a.(*ssa.Slice)
	if !ok {
		return nil
	}
	al, ok := sl.X.(*ssa.Alloc)
	if !ok {
		return nil
	}
	at, ok := al.Type().Underlying().(*types.Pointer).Elem().Underlying().(*types.Array)
	if !ok || at.Len() > 32 {
		return nil
	}
	if len(vc.L.Leaves(at.Elem())) != 1 || vc.L.Leaves(at.Elem())[0].Sort != SIface {
		return nil
	}
	base := ptrAddr(vc.val1(al))
	var out []string
	for i := int64(0); i < at.Len(); i++ {
		out = append(out, sel(sel(sel(h.H[SIface], base.Obj), base.Slot), plus(base.Idx, num(i))))
	}
	return out
}

// ---------------------------------------------------------------- builtins

func (vc *VC) builtin(b *ssa.Builtin, cc *ssa.CallCommon, h *Heap, resT types.Type) []string {
	switch b.Name() {
	case "len", "cap":
		x := cc.Args[0]
		v := vc.val1(x)
		switch u := x.Type().Underlying().(type) {
		case *types.Slice:
			if b.Name() == "len" {
				return []string{"(s_len " + v + ")"}
			}
			return []string{"(s_cap " + v + ")"}
		case *types.Map:
			return []string{sel(vc.mapLen(h), v)}
		case *types.Basic:
			return []string{"(str_len " + v + ")"}
		case *types.Pointer:
			if at, ok := u.Elem().Underlying().(*types.Array); ok {
				return []string{num(at.Len())}
			}
		case *types.Array:
			return []string{num(u.Len())}
		case *types.Chan:
			r := vc.freshVals("chanlen", resT)
			vc.assume("(<= 0 " + r[0] + ")")
			return r
		}
	case "append":
		return vc.appendOp(cc, h)
	case "copy":
		return vc.copyOp(cc, h)
	case "delete":
		mt := cc.Args[0].Type().Underlying().(*types.Map)
		vc.mapDelete(h, vc.val1(cc.Args[0]), mt, vc.val1(cc.Args[1]))
		return nil
	case "min", "max":
		acc := vc.val1(cc.Args[0])
		for _, a := range cc.Args[1:] {
			v := vc.val1(a)
			if b.Name() == "min" {
				acc = ite("(<= "+acc+" "+v+")", acc, v)
			} else {
				acc = ite("(>= "+acc+" "+v+")", acc, v)
			}
		}
		return []string{acc}
	case "panic":
		vc.panicSite(cc.Pos(), "panic")
		vc.curR = "false"
		return nil
	case "print", "println":
		return nil
	case "recover":
		vc.note("recover: not modelled")
		return []string{"niliface"}
	case "close":
		return nil
	}
	vc.note("unmodelled builtin " + b.Name())
	if resT != nil {
		r := vc.freshVals("bi", resT)
		vc.assumeRanges("true", r, resT, *h)
		return r
	}
	return nil
}

// appendOp models append(s, t...) with Go's two cases: in place when capacity suffices,
// otherwise a fresh backing array holding a copy of s.
func (vc *VC) appendOp(cc *ssa.CallCommon, h *Heap) []string {
	s := vc.val1(cc.Args[0])
	elemT := sliceElem(cc.Args[0].Type())
	ls := vc.L.Leaves(elemT)
	if isString(cc.Args[1].Type()) {
		vc.note("append(bytes, string...): abstracted")
		r := vc.freshVals("append", cc.Args[0].Type())
		vc.assumeRanges("true", r, cc.Args[0].Type(), *h)
		return r
	}
	t := vc.val1(cc.Args[1])
	n := "(s_len " + t + ")"
	newLen := vc.define("applen", "Int", "(+ (s_len "+s+") "+n+")")
	fits := vc.define("appfits", "Bool", "(<= "+newLen+" (s_cap "+s+"))")
	// fresh object for the reallocation case
	pre := h.clone()
	dynB, _ := vc.backingType(cc.Args[0].Type())
	o := vc.alloc(h, vc.curR, dynB, cc.Args[0].Type())
	ncap := vc.declare(vc.fresh("appcap"), "Int")
	vc.assume("(and (>= " + ncap + " " + newLen + ") (<= " + ncap + " " + maxLen + "))")
	res := vc.define("append", "Slice", ite(fits,
		"(mkslice (s_obj "+s+") (s_slot "+s+") (s_off "+s+") "+newLen+" (s_cap "+s+"))",
		"(mkslice "+o+" 0 0 "+newLen+" "+ncap+")"))
	// destination rows: for k in [dstOff, dstOff+len(s)) copy of s (only in the fresh case),
	// for k in [dstOff+len(s), dstOff+newLen) elements of t.
	dObj, dSlot, dOff := "(s_obj "+res+")", "(s_slot "+res+")", "(s_off "+res+")"
	for i, l := range ls {
		cur := pre.H[l.Sort]
		slotD := plus(dSlot, num(int64(i)))
		slotS := plus("(s_slot "+s+")", num(int64(i)))
		slotT := plus("(s_slot "+t+")", num(int64(i)))
		oldRow := sel(sel(cur, dObj), slotD)
		srcRow := sel(sel(cur, "(s_obj "+s+")"), slotS)
		tRow := sel(sel(cur, "(s_obj "+t+")"), slotT)
		row := vc.declare(vc.fresh("approw"), "(Array Int "+innerSort[l.Sort]+")")
		k := "k"
		body := fmt.Sprintf("(= (select %s %s) (ite (and (<= %s %s) (< %s (+ %s (s_len %s)))) (ite %s (select %s %s) (select %s (+ (- %s %s) (s_off %s)))) (ite (and (<= (+ %s (s_len %s)) %s) (< %s (+ %s %s))) (select %s (+ (- %s (+ %s (s_len %s))) (s_off %s))) (select %s %s))))",
			row, k,
			dOff, k, k, dOff, s,
			fits, oldRow, k, srcRow, k, dOff, s,
			dOff, s, k, k, dOff, newLen,
			tRow, k, dOff, s, t,
			oldRow, k)
		vc.assume("(forall ((k Int)) (! " + body + " :pattern ((select " + row + " k))))")
		base := h.H[l.Sort]
		h.H[l.Sort] = vc.define("H"+sortTag[l.Sort], heapSortName(l.Sort), sto(base, dObj, sto(sel(base, dObj), slotD, row)))
	}
	return []string{res}
}

// copyOp models copy(dst, src) as memmove of min(len) elements.
func (vc *VC) copyOp(cc *ssa.CallCommon, h *Heap) []string {
	d := vc.val1(cc.Args[0])
	if isString(cc.Args[1].Type()) {
		vc.note("copy(bytes, string): abstracted")
		for _, l := range vc.L.Leaves(sliceElem(cc.Args[0].Type())) {
			h.H[l.Sort] = vc.newHeapConst(l.Sort)
		}
		r := vc.declare(vc.fresh("copyn"), "Int")
		return []string{r}
	}
	s := vc.val1(cc.Args[1])
	n := vc.define("copyn", "Int", ite("(<= (s_len "+d+") (s_len "+s+"))", "(s_len "+d+")", "(s_len "+s+")"))
	elemT := sliceElem(cc.Args[0].Type())
	pre := h.clone()
	for i, l := range vc.L.Leaves(elemT) {
		cur := pre.H[l.Sort]
		slotD := plus("(s_slot "+d+")", num(int64(i)))
		slotS := plus("(s_slot "+s+")", num(int64(i)))
		oldRow := sel(sel(cur, "(s_obj "+d+")"), slotD)
		srcRow := sel(sel(cur, "(s_obj "+s+")"), slotS)
		row := vc.declare(vc.fresh("copyrow"), "(Array Int "+innerSort[l.Sort]+")")
		body := fmt.Sprintf("(= (select %s k) (ite (and (<= (s_off %s) k) (< k (+ (s_off %s) %s))) (select %s (+ (- k (s_off %s)) (s_off %s))) (select %s k)))",
			row, d, d, n, srcRow, d, s, oldRow)
		vc.assume("(forall ((k Int)) (! " + body + " :pattern ((select " + row + " k))))")
		base := h.H[l.Sort]
		h.H[l.Sort] = vc.define("H"+sortTag[l.Sort], heapSortName(l.Sort), sto(base, "(s_obj "+d+")", sto(sel(base, "(s_obj "+d+")"), slotD, row)))
	}
	return []string{n}
}

// ---------------------------------------------------------------- contracts at call sites

func (vc *VC) useContract(in ssa.Instruction, ct *FuncContract, sig *types.Signature, names []string, args []ssa.Value, h *Heap, resT types.Type) []string {
	root := vc.root()
	root.callees["contract:"+ct.Key()] = true
	if ct.Kind == "assume" || ct.Kind == "iface" {
		root.assumed[ct.Key()] = true
	}
	pre := h.clone()
	mk := func(cur, old Heap, results [][]string) *Eval {
		ev := &Eval{vc: vc, cur: cur.clone(), old: old.clone(), env: map[string]EVal{}, bound: map[string]EVal{}, pkgPath: contractPkg(ct)}
		for i, a := range args {
			if i < len(names) && names[i] != "" && names[i] != "_" {
				ev.env[names[i]] = EVal{T: a.Type(), Terms: vc.val(a)}
			}
		}
		res := sig.Results()
		for i := 0; i < res.Len(); i++ {
			ev.resTypes = append(ev.resTypes, res.At(i).Type())
			ev.resNames = append(ev.resNames, res.At(i).Name())
		}
		ev.results = results
		return ev
	}
	// preconditions
	evPre := mk(pre, pre, nil)
	for i, c := range ct.Requires {
		vc.goalClause(evPre, c, fmt.Sprintf("%s/pre@%s#%d@%s", root.key, ct.Name, i+1, vc.pos(in.Pos())), "pre", vc.curR, vc.pos(in.Pos()))
	}
	// havoc
	if ct.ModAll || !ct.HasMod && ct.Kind != "assume" && !ct.Flags["pure"] {
		if !ct.HasMod {
			vc.note("contract " + ct.Key() + " has no modifies clause: treated as modifies everything")
		}
		// accumulator ghosts the callee's contract does not mention are not changed by it (same
		// assumption as for unknown code: it does not reach a function that updates them)
		var keepAcc []string
		for _, g := range sortedKeys(vc.CS.Ghosts) {
			if !vc.CS.Ghosts[g].Acc {
				continue
			}
			if _, used := h.M["G_"+g]; !used {
				continue
			}
			mentioned := false
			for _, c := range ct.Ensures {
				if strings.Contains(c.Src, g) {
					mentioned = true
				}
			}
			if !mentioned {
				keepAcc = append(keepAcc, g)
				vc.root().assumed["accumulator "+g+" is not changed by "+ct.Key()+" (contract: modifies everything, does not mention it)"] = true
			}
		}
		vc.havocAll(h, "callee "+ct.Key()+" modifies everything", keepAcc...)
	} else {
		for _, m := range ct.Modifies {
			locs, err := evPre.modLoc(m.E)
			if err != nil {
				vc.fail("modifies of %s: %v", ct.Key(), err)
			}
			for _, l := range locs {
				vc.havocLoc(h, l, m.E)
			}
		}
		old := h.Alloc
		h.Alloc = vc.declare(vc.fresh("alloc"), "Int")
		vc.assume("(>= " + h.Alloc + " " + old + ")")
	}
	vc.noteFreshCall(in, ct, sig, pre.Alloc)
	// results
	var results [][]string
	var flat []string
	res := sig.Results()
	for i := 0; i < res.Len(); i++ {
		r := vc.freshVals("res_"+sanitize(ct.Name), res.At(i).Type())
		vc.assumeRanges("true", r, res.At(i).Type(), *h)
		results = append(results, r)
		flat = append(flat, r...)
	}
	evPost := mk(*h, pre, results)
	for i, c := range ct.Ensures {
		t, err := evPost.boolExpr(c.E, false)
		if err != nil {
			vc.fail("ensures#%d of %s at call site: %v", i+1, ct.Key(), err)
		}
		vc.flushSkolems(evPost, vc.curR)
		vc.assume(implies(vc.curR, t))
	}
	if res.Len() == 0 {
		return nil
	}
	return flat
}

func (vc *VC) havocLoc(h *Heap, l modLoc, e Expr) {
	if l.ghost != "" {
		name, g, _ := vc.ghostHeap(h, l.ghost)
		_ = name
		h.M["G_"+l.ghost] = vc.declare(vc.fresh("G_"+sanitize(l.ghost)), g.SMTSort())
		return
	}
	if l.anyDyn != 0 {
		// typed havoc: slots [a.Slot, a.Slot+n) of every object of that dynamic type
		for i := 0; i < l.n; i++ {
			s := l.sorts[i]
			old := h.H[s]
			nh := vc.newHeapConst(s)
			slot := plus(l.a.Slot, num(int64(i)))
			vc.assume(fmt.Sprintf("(forall ((o Int)) (! (=> (not (= (dyntype o) %d)) (= (select %s o) (select %s o))) :pattern ((select %s o))))", l.anyDyn, nh, old, nh))
			vc.assume(fmt.Sprintf("(forall ((o Int) (sl Int)) (! (=> (not (= sl %s)) (= (select (select %s o) sl) (select (select %s o) sl))) :pattern ((select (select %s o) sl))))", slot, nh, old, nh))
			h.H[s] = nh
		}
		return
	}
	if l.allMaps {
		for _, k := range sortedKeys(h.M) {
			if !strings.HasPrefix(k, "G_") {
				h.M[k] = vc.declare(vc.fresh(k), vc.mapHeapSort(k))
			}
		}
		return
	}
	if l.isMap {
		for _, k := range sortedKeys(h.M) {
			if strings.HasPrefix(k, "G_") {
				continue
			}
			cur := h.M[k]
			fr := vc.declare(vc.fresh(k+"_hv"), vc.mapHeapSort(k))
			h.M[k] = vc.define(k, vc.mapHeapSort(k), sto(cur, l.mapRef, sel(fr, l.mapRef)))
		}
		return
	}
	if l.allObj {
		for s := Sort(0); s < nSorts; s++ {
			cur := h.H[s]
			fr := vc.declare(vc.fresh("hvobj"), "(Array Int (Array Int "+innerSort[s]+"))")
			h.H[s] = vc.define("H"+sortTag[s], heapSortName(s), sto(cur, l.a.Obj, fr))
		}
		return
	}
	// n consecutive slots starting at l.a.Slot; we need the sort of each: derive from the expression type
	ev := &Eval{vc: vc, cur: h.clone(), old: h.clone(), env: map[string]EVal{}, bound: map[string]EVal{}}
	_ = ev
	sorts := l.sorts
	for i := 0; i < l.n; i++ {
		for s := Sort(0); s < nSorts; s++ {
			if sorts != nil && sorts[i] != s {
				continue
			}
			cur := h.H[s]
			slot := plus(l.a.Slot, num(int64(i)))
			if l.allIdx {
				fr := vc.declare(vc.fresh("hvrow"), "(Array Int "+innerSort[s]+")")
				h.H[s] = vc.define("H"+sortTag[s], heapSortName(s), sto(cur, l.a.Obj, sto(sel(cur, l.a.Obj), slot, fr)))
			} else {
				fr := vc.declare(vc.fresh("hv"), innerSort[s])
				h.H[s] = vc.define("H"+sortTag[s], heapSortName(s), sto(cur, l.a.Obj, sto(sel(cur, l.a.Obj), slot, sto(sel(sel(cur, l.a.Obj), slot), l.a.Idx, fr))))
			}
		}
	}
}

// ---------------------------------------------------------------- inlining

func (vc *VC) canInline(f *ssa.Function) bool {
	if len(f.Blocks) == 0 {
		return false
	}
	if vc.depth >= 3 {
		return false
	}
	for p := vc; p != nil; p = p.parent {
		if p.fn == f {
			return false
		}
	}
	n := 0
	for _, b := range f.Blocks {
		n += len(b.Instrs)
		for _, s := range b.Succs {
			if s.Dominates(b) {
				return false // loops need invariants: not inlined
			}
		}
	}
	if n > 400 {
		return false
	}
	pk := ""
	if f.Pkg != nil {
		pk = f.Pkg.Pkg.Path()
	} else if f.Parent() != nil && f.Parent().Pkg != nil {
		pk = f.Parent().Pkg.Pkg.Path()
	} else if f.Origin() != nil && f.Origin().Pkg != nil {
		pk = f.Origin().Pkg.Pkg.Path()
	}
	return strings.HasPrefix(pk, "0chain.net/") || strings.HasPrefix(pk, "github.com/0chain/common/")
}

func (vc *VC) inline(in ssa.Instruction, f *ssa.Function, closure *ssa.MakeClosure, args []ssa.Value, h *Heap, resT types.Type) []string {
	root := vc.root()
	root.callees["inline:"+funcKey(f)] = true
	root.n++
	child := &VC{P: vc.P, CS: vc.CS, L: vc.L, fn: f, key: funcKey(f), parent: vc, depth: vc.depth + 1,
		prefix: fmt.Sprintf("i%d_", root.n), vals: map[ssa.Value][]string{},
		blockOut: map[*ssa.BasicBlock]Heap{}, blockR: map[*ssa.BasicBlock]string{}, blockExit: map[*ssa.BasicBlock]string{},
		rangeOf: map[ssa.Value]ssa.Value{}, heap0: root.heap0, callSite: in}
	for i, p := range f.Params {
		if t, ok := vc.inlineArgTerms[i]; ok {
			child.vals[p] = t // symbolic arguments (comparator of a sort call, sortspec.go)
			continue
		}
		if i < len(args) {
			child.vals[p] = vc.val(args[i])
			// a function literal passed as an argument: calls of that parameter in the callee are
			// calls of the literal (resolved when the callee body is inlined)
			if mc, isMC := args[i].(*ssa.MakeClosure); isMC {
				if child.closureArgs == nil {
					child.closureArgs = map[ssa.Value]closureRef{}
				}
				child.closureArgs[p] = closureRef{mc: mc, owner: vc}
			} else if cr, ok := vc.closureArgs[args[i]]; ok {
				if child.closureArgs == nil {
					child.closureArgs = map[ssa.Value]closureRef{}
				}
				child.closureArgs[p] = cr
			}
		}
	}
	if closure != nil {
		bvc := vc
		if vc.bindVC != nil {
			bvc = vc.bindVC
		}
		for i, fv := range f.FreeVars {
			child.vals[fv] = bvc.val(closure.Bindings[i])
		}
	}
	if err := child.findLoops(); err != nil {
		vc.fail("inline %s: %v", funcKey(f), err)
	}
	child.translateBody(vc.curR, *h)
	if len(child.rets) == 0 {
		vc.curR = "false"
		if resT != nil {
			return vc.freshVals("noret", resT)
		}
		return nil
	}
	var conds []string
	var hs []Heap
	for _, r := range child.rets {
		conds = append(conds, r.guard)
		hs = append(hs, r.heap)
	}
	*h = vc.mergeHeaps(conds, hs)
	vc.curR = vc.define("R_after_"+sanitize(f.Name()), "Bool", or(conds...))
	if resT == nil {
		return nil
	}
	nl := len(vc.L.Leaves(resT))
	out := make([]string, nl)
	for k := 0; k < nl; k++ {
		flat := func(r retRec) string {
			i := 0
			for _, vs := range r.vals {
				for _, t := range vs {
					if i == k {
						return t
					}
					i++
				}
			}
			return "0"
		}
		t := flat(child.rets[len(child.rets)-1])
		for i := len(child.rets) - 2; i >= 0; i-- {
			t = ite(conds[i], flat(child.rets[i]), t)
		}
		out[k] = t
	}
	return out
}
