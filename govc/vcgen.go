package main

import (
	"fmt"
	"go/ast"
	"go/constant"
	"go/token"
	"go/types"
	"math"
	"regexp"
	"sort"
	"strings"

	"golang.org/x/tools/go/ssa"
)

// ---------------------------------------------------------------- heap state

type Heap struct {
	H     [nSorts]string
	Alloc string
	M     map[string]string // map heaps: "MD_<K>", "MV_<K>_<V>", "ML"
}

func (h Heap) clone() Heap {
	n := h
	n.M = make(map[string]string, len(h.M))
	for k, v := range h.M {
		n.M[k] = v
	}
	return n
}

type Addr struct{ Obj, Slot, Idx string }

func ptrAddr(p string) Addr {
	if strings.HasPrefix(p, "(mkptr ") {
		if parts := splitSexp(p[7 : len(p)-1]); len(parts) == 3 {
			return Addr{parts[0], parts[1], parts[2]}
		}
	}
	return Addr{"(p_obj " + p + ")", "(p_slot " + p + ")", "(p_idx " + p + ")"}
}
func (a Addr) Ptr() string { return "(mkptr " + a.Obj + " " + a.Slot + " " + a.Idx + ")" }
func (a Addr) Plus(off int) Addr {
	if off == 0 {
		return a
	}
	return Addr{a.Obj, plus(a.Slot, num(int64(off))), a.Idx}
}

func splitSexp(s string) []string {
	var out []string
	d := 0
	start := -1
	for i := 0; i < len(s); i++ {
		c := s[i]
		switch {
		case c == '(':
			if d == 0 && start < 0 {
				start = i
			}
			d++
		case c == ')':
			d--
			if d == 0 {
				out = append(out, s[start:i+1])
				start = -1
			}
		case c == ' ':
			if d == 0 && start >= 0 {
				out = append(out, s[start:i])
				start = -1
			}
		default:
			if start < 0 {
				start = i
			}
		}
	}
	if start >= 0 {
		out = append(out, s[start:])
	}
	return out
}

// ---------------------------------------------------------------- obligations

type Obligation struct {
	Name   string
	Kind   string
	Func   string
	Decls  []string // extra declarations (skolems)
	Hyps   []string // extra hypotheses local to this obligation
	Goal   string
	Pos    string
	Expect string // "unsat" normally; "sat" for vacuity/cover checks
	Ctx    int    // number of context assertions in force when the obligation was raised
	Raw    string // complete SMT script (relational obligations build their own two-copy context)
	Src    string
	// filled by the runner
	Res  SolverResult
	File string
}

// ---------------------------------------------------------------- function VC context

type VC struct {
	P   *Program
	CS  *ContractSet
	L   *Layout
	fn  *ssa.Function
	ct  *FuncContract
	key string

	decls   []string
	asserts []string
	declSet map[string]bool
	n       int
	prefix  string

	vals     map[ssa.Value][]string
	blockIn  map[*ssa.BasicBlock]string
	blockOut map[*ssa.BasicBlock]Heap
	blockR   map[*ssa.BasicBlock]string // reach predicate at block entry
	heap0    Heap
	strConst map[string]string
	f64Const map[string]string
	hasPreds map[string]types.Type
	atPreds  map[string]types.Type
	idTypes  map[int]types.Type
	typeIDs  map[string]int
	ufDecl   map[string]bool

	loops    []*loopInfo
	loopOf   map[*ssa.BasicBlock]*loopInfo // header -> loop
	defers   []deferRec
	rets     []retRec
	lockOps  []Addr
	obls     []*Obligation
	notes    map[string]bool
	assumed  map[string]bool
	callees  map[string]bool
	depth    int
	parent   *VC
	nestedBV map[types.Type]bool

	curR      string
	curBlock  *ssa.BasicBlock
	blockExit map[*ssa.BasicBlock]string
	rangeOf   map[ssa.Value]ssa.Value
	heapBound map[string]string
	assertSet map[string]bool
	nonNilGlobs []string
	ldCache     map[string][]string
	atCallSeen  map[string]int
	coverSeen   map[string]bool // reachable[label] clauses already attached to a statement
	atInstr    ssa.Instruction // the call an at-call assertion is being evaluated at
	sumFns      map[string]string // (lower bound | body term) -> sum function symbol
	ldDefs      map[string]string // ld_N -> the load term it names
	closureArgs map[ssa.Value]closureRef
	bindVC      *VC // where the bindings of the closure being inlined are evaluated
	logSkip     map[ssa.Instruction]bool
	logSkipFn   map[*ssa.Function]bool
	factGuard   string // path condition under which facts derived during a contract evaluation hold
	callSite    ssa.Instruction // for an inlined callee: the call it is inlined at
	freshCalls  map[ssa.Instruction]freshCall // contracted calls that return freshly allocated, unshared objects
	inlineArgTerms map[int][]string        // symbolic arguments for the next inline() (sortspec.go)
}

// freshCall: a call by contract whose callee may write ghost state only (so it cannot have stored
// the result anywhere) and whose contract says result #idx is fresh.
type freshCall struct {
	preAlloc string
	idx      map[int]bool
}

type loopInfo struct {
	header *ssa.BasicBlock
	body   map[*ssa.BasicBlock]bool
	backs  []*ssa.BasicBlock
	ord    int
	stmt   ast.Stmt
	spec   *LoopSpec
	// state snapshots
	headHeap  Heap // havocked heap at header (arbitrary iteration)
	entryHeap Heap
	phiEntry  map[ssa.Value][]string
	variant0  string
	nondec0   []string // values of the `nondecreasing` expressions at the loop head
	autoRange bool
}

type deferRec struct {
	call  *ssa.Defer
	guard string
}
type retRec struct {
	blk   *ssa.BasicBlock
	guard string
	vals  [][]string
	heap  Heap
}

var identRe = regexp.MustCompile(`[^A-Za-z0-9_]`)

func sanitize(s string) string { return identRe.ReplaceAllString(s, "_") }

func (vc *VC) fresh(base string) string {
	vc.root().n++
	return fmt.Sprintf("%s%s_%d", vc.prefix, sanitize(base), vc.root().n)
}
func (vc *VC) root() *VC {
	r := vc
	for r.parent != nil {
		r = r.parent
	}
	return r
}
func (vc *VC) declare(name, sort string) string {
	r := vc.root()
	if !r.declSet[name] {
		r.declSet[name] = true
		r.decls = append(r.decls, fmt.Sprintf("(declare-const %s %s)", name, sort))
	}
	return name
}
func (vc *VC) declareRaw(key, decl string) {
	r := vc.root()
	if !r.declSet[key] {
		r.declSet[key] = true
		r.decls = append(r.decls, decl)
	}
}
func (vc *VC) declaredRaw(key string) bool { return vc.root().declSet[key] }

func (vc *VC) assume(f string) {
	if f == "true" || f == "" {
		return
	}
	r := vc.root()
	if r.assertSet == nil {
		r.assertSet = map[string]bool{}
	}
	if r.assertSet[f] {
		return
	}
	r.assertSet[f] = true
	r.asserts = append(r.asserts, f)
}
func (vc *VC) note(s string) { vc.root().notes[s] = true }

// define introduces a named constant equal to term.
func (vc *VC) define(base, sort, term string) string {
	n := vc.declare(vc.fresh(base), sort)
	vc.assume(eq(n, term))
	if !strings.HasPrefix(sort, "(Array") && !strings.HasPrefix(sort, "H") && sort != "Bool" {
		r := vc.root()
		if r.ldDefs == nil {
			r.ldDefs = map[string]string{}
		}
		r.ldDefs[n] = term // value definitions: used to canonicalise terms (eval_sum.go)
	}
	return n
}

func (vc *VC) freshVals(base string, t types.Type) []string {
	ls := vc.L.Leaves(t)
	out := make([]string, len(ls))
	for i, l := range ls {
		out[i] = vc.declare(vc.fresh(base), l.Sort.SMT())
	}
	return out
}

func (vc *VC) typeID(t types.Type) int {
	r := vc.root()
	s := types.TypeString(t, nil)
	if id, ok := r.typeIDs[s]; ok {
		return id
	}
	id := len(r.typeIDs) + 1
	r.typeIDs[s] = id
	return id
}

func (vc *VC) strLit(s string) string {
	r := vc.root()
	if s == "" {
		return "str_empty"
	}
	if n, ok := r.strConst[s]; ok {
		return n
	}
	n := fmt.Sprintf("strc_%d", len(r.strConst))
	r.strConst[s] = n
	r.decls = append(r.decls, fmt.Sprintf("(declare-const %s Str) ; %q", n, truncate(s, 60)))
	r.asserts = append(r.asserts, fmt.Sprintf("(= (str_len %s) %d)", n, len(s)))
	return n
}
func truncate(s string, n int) string {
	if len(s) > n {
		return s[:n] + "..."
	}
	return s
}
func (vc *VC) f64Lit(f float64) string {
	r := vc.root()
	if f == 0 {
		return "f64_zero"
	}
	k := fmt.Sprintf("%x", math.Float64bits(f))
	if n, ok := r.f64Const[k]; ok {
		return n
	}
	n := "f64c_" + k
	r.f64Const[k] = n
	r.decls = append(r.decls, fmt.Sprintf("(declare-const %s F64) ; %v", n, f))
	return n
}

// distinctness of literal constants, emitted once at the end
func (vc *VC) literalAxioms() []string {
	var out []string
	if len(vc.strConst) > 0 {
		names := []string{"str_empty"}
		for _, k := range sortedKeys(vc.strConst) {
			names = append(names, vc.strConst[k])
		}
		out = append(out, "(distinct "+strings.Join(names, " ")+")")
	}
	if len(vc.f64Const) > 0 {
		names := []string{"f64_zero"}
		for _, k := range sortedKeys(vc.f64Const) {
			names = append(names, vc.f64Const[k])
		}
		out = append(out, "(distinct "+strings.Join(names, " ")+")")
	}
	if vc.declaredRaw("ptr_tid") {
		for _, k := range sortedKeys(vc.typeIDs) {
			if strings.HasPrefix(k, "*") {
				out = append(out, fmt.Sprintf("(ptr_tid %d)", vc.typeIDs[k]))
			}
		}
	}
	return out
}

// ---------------------------------------------------------------- facts about values

const maxLen = "1099511627776" // 2^40: assumed bound on slice/map/string lengths

func (vc *VC) rangeFact(term string, l Leaf, h Heap) string {
	switch l.Sort {
	case SInt:
		if lo, hi, ok := intRange(l.T); ok {
			return "(and (<= " + lo + " " + term + ") (<= " + term + " " + hi + "))"
		}
	case SPtr:
		// (nil tests on pointers compare the object number with 0 - see binop - so no "the nil pointer is
		// canonical" fact is needed here; as a disjunction on every pointer value it made
		// Round.AddNotarizedBlock/post[one-per-rank] go from 7 s to a timeout)
		f := "(and (<= 0 (p_obj " + term + ")) (<= (p_obj " + term + ") " + h.Alloc + "))"
		if pt, ok := l.T.Underlying().(*types.Pointer); ok {
			if id, base := vc.baseType(pt.Elem()); base {
				f = and(f, implies(not(eq("(p_obj "+term+")", "0")),
					and(eq("(dyntype (p_obj "+term+"))", num(int64(id))), eq("(p_slot "+term+")", "0"), eq("(p_idx "+term+")", "0"))))
			} else if n, isN := pt.Elem().(*types.Named); isN {
				if _, isS := n.Underlying().(*types.Struct); isS && n.TypeArgs().Len() == 0 {
					f = and(f, implies(not(eq("(p_obj "+term+")", "0")), and("("+vc.hasPred(n)+" (dyntype (p_obj "+term+")))",
						"("+vc.atPred(n)+" (dyntype (p_obj "+term+")) (p_slot "+term+"))")))
				}
			}
		}
		return f
	case SSlice:
		if id, ok := vc.backingType(l.T); ok {
			return and(vc.sliceRange(term, h), implies(not(eq("(s_obj "+term+")", "0")), and(eq("(dyntype (s_obj "+term+"))", num(int64(id))), eq("(s_slot "+term+")", "0"))))
		}
		return vc.sliceRange(term, h)
	case Sort(99):
		return "(and (<= 0 (s_obj " + term + ")) (<= (s_obj " + term + ") " + h.Alloc + ") (<= 0 (s_off " + term + ")) (<= 0 (s_len " + term + ")) (<= (s_len " + term + ") (s_cap " + term + ")) (<= (s_cap " + term + ") " + maxLen + ") (=> (= (s_obj " + term + ") 0) (= (s_cap " + term + ") 0)))"
	case SIface:
		return "(and (<= 0 (p_obj (i_pl " + term + "))) (<= (p_obj (i_pl " + term + ")) " + h.Alloc + ") (<= 0 (i_tid " + term + ")) (=> (= (i_tid " + term + ") 0) (= " + term + " niliface)))"
	case SRef:
		f := "(and (<= 0 " + term + ") (<= " + term + " " + h.Alloc + "))"
		if _, isMap := l.T.Underlying().(*types.Map); isMap {
			f = and(f, implies(not(eq(term, "0")), eq("(dyntype "+term+")", num(int64(vc.mapTypeID(l.T))))))
		}
		return f
	}
	return "true"
}

func (vc *VC) sliceRange(term string, h Heap) string {
	return "(and (<= 0 (s_obj " + term + ")) (<= (s_obj " + term + ") " + h.Alloc + ") (<= 0 (s_off " + term + ")) (<= 0 (s_len " + term + ")) (<= (s_len " + term + ") (s_cap " + term + ")) (<= (s_cap " + term + ") " + maxLen + ") (=> (= (s_obj " + term + ") 0) (= (s_cap " + term + ") 0)))"
}

// backingType: slices whose element type never occurs as the element of a declared array type
// are backed by dedicated allocations (make/append/literals); those get a dyntype id.
func (vc *VC) backingType(t types.Type) (int, bool) {
	var el types.Type
	switch u := t.Underlying().(type) {
	case *types.Slice:
		el = u.Elem()
	case *types.Array:
		el = u.Elem()
	default:
		return 0, false
	}
	vc.root().P.nestedByValue()
	k := types.TypeString(el, nil)
	// Assumption (listed in the evidence): slices other than byte slices are backed by slice
	// allocations (make/append/literals), never by an array embedded in another object.
	// Byte slices are routinely cut from [N]byte fields (hashes, keys) and get no such fact.
	if b, ok := el.Underlying().(*types.Basic); ok && (b.Kind() == types.Uint8 || b.Kind() == types.Int8) && vc.root().P.arrayElems[k] {
		return 0, false
	}
	id := vc.typeID2("[]backing:" + k)
	vc.recordIDType(id, el)
	return id, true
}

// mapTypeID: map objects carry the id of their (underlying) map type, so that a loop that
// updates maps of one type leaves maps of other types alone.
func (vc *VC) mapTypeID(t types.Type) int {
	id := vc.typeID2("map:" + types.TypeString(t.Underlying(), nil))
	vc.recordIDType(id, types.Typ[types.Int])
	return id
}

func (vc *VC) typeID2(s string) int {
	r := vc.root()
	if id, ok := r.typeIDs[s]; ok {
		return id
	}
	id := len(r.typeIDs) + 1
	r.typeIDs[s] = id
	return id
}

// baseType: named struct types never nested by value anywhere get a dyntype id and the
// base-pointer assumption.
func (vc *VC) baseType(t types.Type) (int, bool) {
	n, ok := t.(*types.Named)
	if !ok {
		return 0, false
	}
	if _, ok := n.Underlying().(*types.Struct); !ok {
		return 0, false
	}
	if vc.root().nestedBV[n] || n.TypeArgs().Len() > 0 {
		return 0, false
	}
	id := vc.typeID(n)
	vc.recordIDType(id, n)
	return id, true
}

func (vc *VC) assumeRanges(guard string, terms []string, t types.Type, h Heap) {
	ls := vc.L.Leaves(t)
	for i, l := range ls {
		if i < len(terms) {
			vc.assume(implies(guard, vc.rangeFact(terms[i], l, h)))
		}
	}
}

// recordBounds remembers, for every heap version, the allocation counter at the time the
// version came into existence: every reference stored in that version is <= that counter.
func (vc *VC) recordBounds(h *Heap) {
	r := vc.root()
	if r.heapBound == nil {
		r.heapBound = map[string]string{}
	}
	for s := Sort(0); s < nSorts; s++ {
		if _, ok := r.heapBound[h.H[s]]; !ok {
			r.heapBound[h.H[s]] = h.Alloc
		}
	}
	for _, n := range h.M {
		if _, ok := r.heapBound[n]; !ok {
			r.heapBound[n] = h.Alloc
		}
	}
}

// assumeLoadRanges is assumeRanges for values read from heap version h: references are
// bounded by the allocation counter of the version they were read from.
func (vc *VC) assumeLoadRanges(terms []string, t types.Type, h Heap, from ...string) {
	// Facts about a value derived from a heap version hold only on the paths where that heap
	// version is the actual state: they are guarded by the current path condition. (Asserted
	// unconditionally they can make *other* paths infeasible - e.g. "0 <= len" of a slice
	// header that another branch computed as len-1.)
	guard := vc.root().factGuard
	if guard == "" {
		guard = vc.curR
	}
	if guard == "" {
		guard = "true"
	}
	ls := vc.L.Leaves(t)
	for i, l := range ls {
		if i >= len(terms) {
			break
		}
		for _, f := range vc.loadFacts(terms[i], l, h, from...) {
			vc.assume(implies(guard, f))
		}
	}
}

// loadFacts: well-typedness of a value read from heap version h. References are bounded by the
// current allocation counter; if the object read from (from[0]) already existed when that heap
// version came into being, they are bounded by the counter of that moment (objects above a
// version's counter hold arbitrary contents - e.g. an object a callee allocated and returned).
func (vc *VC) loadFacts(term string, l Leaf, h Heap, from ...string) []string {
	out := []string{vc.rangeFact(term, l, h)}
	b, ok := vc.root().heapBound[h.H[l.Sort]]
	if !ok || b == h.Alloc || len(from) == 0 || from[0] == "" {
		return out
	}
	var ref string
	switch l.Sort {
	case SPtr:
		ref = "(p_obj " + term + ")"
	case SSlice:
		ref = "(s_obj " + term + ")"
	case SIface:
		ref = "(p_obj (i_pl " + term + "))"
	case SRef:
		ref = term
	default:
		return out
	}
	out = append(out, implies("(<= "+from[0]+" "+b+")", "(<= "+ref+" "+b+")"))
	return out
}

// ---------------------------------------------------------------- heap access

func (vc *VC) load(h Heap, a Addr, t types.Type) []string {
	ls := vc.L.Leaves(t)
	out := make([]string, len(ls))
	for i, l := range ls {
		out[i] = sel(sel(sel(h.H[l.Sort], a.Obj), plus(a.Slot, num(int64(i)))), a.Idx)
	}
	return out
}

func (vc *VC) newHeapConst(s Sort) string {
	return vc.declare(vc.fresh("H"+sortTag[s]), heapSortName(s))
}

func (vc *VC) store(h *Heap, a Addr, t types.Type, v []string) {
	ls := vc.L.Leaves(t)
	for i, l := range ls {
		if i >= len(v) {
			break
		}
		cur := h.H[l.Sort]
		slot := plus(a.Slot, num(int64(i)))
		nh := sto(cur, a.Obj, sto(sel(cur, a.Obj), slot, sto(sel(sel(cur, a.Obj), slot), a.Idx, v[i])))
		h.H[l.Sort] = vc.define("H"+sortTag[l.Sort], heapSortName(l.Sort), nh)
	}
}

func (vc *VC) zeroVals(t types.Type) []string {
	ls := vc.L.Leaves(t)
	out := make([]string, len(ls))
	for i, l := range ls {
		out[i] = l.Sort.Zero()
	}
	return out
}

var innerSort = [...]string{"Int", "Bool", "Str", "F64", "Ptr", "Slice", "Iface", "Int"}

func zeroObj(s Sort) string {
	return fmt.Sprintf("((as const (Array Int (Array Int %s))) ((as const (Array Int %s)) %s))", innerSort[s], innerSort[s], zeroLit[s])
}

// literal zero values (cvc5 wants values, not defined constants, in constant arrays)
var zeroLit = [...]string{"0", "false", "str_empty", "f64_zero", "(mkptr 0 0 0)", "(mkslice 0 0 0 0 0)", "(mkiface 0 (mkptr 0 0 0))", "0"}

// alloc creates a fresh object; all of its slots are zero in every heap kind.
// alloc creates a fresh object. Its contents are zero in the heap kinds that a value of type t
// (the allocated type; nil = unknown: all kinds) can occupy - a well-typed program never reads
// the other kinds at this object. isMap: a map object (empty domain, length 0).
func (vc *VC) alloc(h *Heap, guard string, dyn int, t ...types.Type) string {
	o := vc.define("obj", "Int", plus(h.Alloc, "1"))
	h.Alloc = o
	var want map[Sort]bool
	isMap := false
	if len(t) > 0 && t[0] != nil {
		want = map[Sort]bool{}
		tt := t[0]
		if _, ok := tt.Underlying().(*types.Map); ok {
			isMap = true
		} else {
			if sl, ok := tt.Underlying().(*types.Slice); ok {
				tt = sl.Elem()
			}
			for _, l := range vc.L.Leaves(tt) {
				want[l.Sort] = true
			}
		}
	}
	for s := Sort(0); s < nSorts; s++ {
		if want == nil || want[s] {
			vc.assume(eq(sel(h.H[s], o), zeroObj(s)))
		}
	}
	if want == nil || isMap {
		for _, k := range sortedKeys(h.M) {
			if strings.HasPrefix(k, "MD_") {
				vc.assume(eq(sel(h.M[k], o), "((as const (Array "+mapKeySort(k)+" Bool)) false)"))
			}
		}
		if ml, ok := h.M["ML"]; ok {
			vc.assume(eq(sel(ml, o), "0"))
		}
	}
	if dyn != 0 {
		// guarded: dyntype is not versioned, and allocations on different branches may reuse
		// the same object number
		vc.assume(implies(guard, eq("(dyntype "+o+")", num(int64(dyn)))))
	}
	return o
}

func mapKeySort(k string) string {
	p := strings.Split(k, "_")
	switch p[1] {
	case "I", "R":
		return "Int"
	case "S":
		return "Str"
	case "B":
		return "Bool"
	case "F":
		return "F64"
	case "P":
		return "Ptr"
	case "A":
		return "Iface"
	}
	return "Int"
}

// map heaps -------------------------------------------------------

func (vc *VC) mapHeap(h *Heap, key, sort string) string {
	if n, ok := h.M[key]; ok {
		return n
	}
	// first use anywhere: the initial version is shared by every heap derived from heap0
	r := vc.root()
	name := key + "_0"
	r.declare(name, sort)
	h.M[key] = name
	return name
}

func (vc *VC) mapKeyLeaf(mt *types.Map) (Leaf, bool) {
	ls := vc.L.Leaves(mt.Key())
	if len(ls) != 1 {
		return Leaf{}, false
	}
	return ls[0], true
}

func (vc *VC) mapDom(h *Heap, kl Leaf) string {
	return vc.mapHeap(h, "MD_"+sortTag[kl.Sort], "(Array Int (Array "+kl.Sort.SMT()+" Bool))")
}
func (vc *VC) mapVal(h *Heap, kl Leaf, vs Sort) string {
	return vc.mapHeap(h, "MV_"+sortTag[kl.Sort]+"_"+sortTag[vs], "(Array Int (Array Int (Array "+kl.Sort.SMT()+" "+vs.SMT()+")))")
}
func (vc *VC) mapLen(h *Heap) string { return vc.mapHeap(h, "ML", "(Array Int Int)") }

func (vc *VC) mapLookup(h *Heap, m string, mt *types.Map, k string) (vals []string, ok string) {
	kl, good := vc.mapKeyLeaf(mt)
	if !good {
		vc.note("map with composite key: lookup is havoc")
		return vc.freshVals("mapv", mt.Elem()), vc.declare(vc.fresh("mapok"), "Bool")
	}
	dom := vc.mapDom(h, kl)
	ok = and(not(eq(m, "0")), sel(sel(dom, m), k))
	ls := vc.L.Leaves(mt.Elem())
	vals = make([]string, len(ls))
	for i, l := range ls {
		mv := vc.mapVal(h, kl, l.Sort)
		vals[i] = ite(ok, sel(sel(sel(mv, m), num(int64(i))), k), l.Sort.Zero())
	}
	return
}

func (vc *VC) mapUpdate(h *Heap, m string, mt *types.Map, k string, v []string) {
	kl, good := vc.mapKeyLeaf(mt)
	if !good {
		vc.note("map with composite key: update dropped")
		return
	}
	dom := vc.mapDom(h, kl)
	ml := vc.mapLen(h)
	was := sel(sel(dom, m), k)
	h.M["ML"] = vc.define("ML", "(Array Int Int)", sto(ml, m, ite(was, sel(ml, m), plus(sel(ml, m), "1"))))
	h.M["MD_"+sortTag[kl.Sort]] = vc.define("MD", "(Array Int (Array "+kl.Sort.SMT()+" Bool))", sto(dom, m, sto(sel(dom, m), k, "true")))
	for i, l := range vc.L.Leaves(mt.Elem()) {
		mv := vc.mapVal(h, kl, l.Sort)
		key := "MV_" + sortTag[kl.Sort] + "_" + sortTag[l.Sort]
		slot := num(int64(i))
		h.M[key] = vc.define("MV", "(Array Int (Array Int (Array "+kl.Sort.SMT()+" "+l.Sort.SMT()+")))",
			sto(mv, m, sto(sel(mv, m), slot, sto(sel(sel(mv, m), slot), k, v[i]))))
	}
}

func (vc *VC) mapDelete(h *Heap, m string, mt *types.Map, k string) {
	kl, good := vc.mapKeyLeaf(mt)
	if !good {
		return
	}
	dom := vc.mapDom(h, kl)
	ml := vc.mapLen(h)
	was := and(not(eq(m, "0")), sel(sel(dom, m), k))
	h.M["ML"] = vc.define("ML", "(Array Int Int)", sto(ml, m, ite(was, "(- "+sel(ml, m)+" 1)", sel(ml, m))))
	h.M["MD_"+sortTag[kl.Sort]] = vc.define("MD", "(Array Int (Array "+kl.Sort.SMT()+" Bool))", sto(dom, m, sto(sel(dom, m), k, "false")))
}

// ---------------------------------------------------------------- heap merging / havoc

func (vc *VC) mergeHeaps(conds []string, hs []Heap) Heap {
	if len(hs) == 1 {
		return hs[0].clone()
	}
	out := hs[len(hs)-1].clone()
	for s := Sort(0); s < nSorts; s++ {
		t := hs[len(hs)-1].H[s]
		same := true
		for i := len(hs) - 2; i >= 0; i-- {
			if hs[i].H[s] != t {
				same = false
			}
		}
		if same {
			continue
		}
		for i := len(hs) - 2; i >= 0; i-- {
			t = ite(conds[i], hs[i].H[s], t)
		}
		out.H[s] = vc.define("H"+sortTag[s], heapSortName(s), t)
	}
	// alloc
	{
		t := hs[len(hs)-1].Alloc
		same := true
		for i := len(hs) - 2; i >= 0; i-- {
			if hs[i].Alloc != t {
				same = false
			}
		}
		if !same {
			for i := len(hs) - 2; i >= 0; i-- {
				t = ite(conds[i], hs[i].Alloc, t)
			}
			out.Alloc = vc.define("alloc", "Int", t)
		}
	}
	keys := map[string]bool{}
	for _, h := range hs {
		for k := range h.M {
			keys[k] = true
		}
	}
	for _, k := range sortedKeys(keys) { // sorted: the VC text must not depend on map iteration order
		get := func(h Heap) string {
			if n, ok := h.M[k]; ok {
				return n
			}
			return k + "_0"
		}
		t := get(hs[len(hs)-1])
		same := true
		for i := len(hs) - 2; i >= 0; i-- {
			if get(hs[i]) != t {
				same = false
			}
		}
		if same {
			out.M[k] = t
			continue
		}
		for i := len(hs) - 2; i >= 0; i-- {
			t = ite(conds[i], get(hs[i]), t)
		}
		out.M[k] = vc.define(k, vc.mapHeapSort(k), t)
	}
	return out
}

func (vc *VC) mapHeapSort(k string) string {
	p := strings.Split(k, "_")
	switch p[0] {
	case "ML":
		return "(Array Int Int)"
	case "MD":
		return "(Array Int (Array " + mapKeySort(k) + " Bool))"
	case "MV":
		vs := map[string]string{"I": "Int", "B": "Bool", "S": "Str", "F": "F64", "P": "Ptr", "L": "Slice", "A": "Iface", "R": "Int"}[p[2]]
		return "(Array Int (Array Int (Array " + mapKeySort(k) + " " + vs + ")))"
	case "G":
		if g, ok := vc.CS.Ghosts[strings.TrimPrefix(k, "G_")]; ok {
			return g.SMTSort()
		}
	}
	return "Int"
}

// ghost state declared in contract files: `ghost $name (KeySort) ValSort` or `ghost $name ValSort`
func (g *GhostDecl) SMTSort() string {
	if g.Key == "" {
		return g.Val
	}
	return "(Array " + g.Key + " " + g.Val + ")"
}

func (vc *VC) ghostHeap(h *Heap, name string) (string, *GhostDecl, bool) {
	g, ok := vc.CS.Ghosts[name]
	if !ok {
		return "", nil, false
	}
	return vc.mapHeap(h, "G_"+name, g.SMTSort()), g, true
}

// havocAll replaces every heap component by a fresh one (objects above the old allocation
// pointer may have been created).
func (vc *VC) havocAll(h *Heap, why string, keepGhost ...string) {
	vc.note("full heap havoc: " + why)
	old := h.Alloc
	for s := Sort(0); s < nSorts; s++ {
		h.H[s] = vc.newHeapConst(s)
	}
	keep := map[string]bool{}
	for _, g := range keepGhost {
		keep["G_"+g] = true
	}
	for _, k := range sortedKeys(h.M) {
		if keep[k] {
			continue
		}
		h.M[k] = vc.declare(vc.fresh(k), vc.mapHeapSort(k))
	}
	h.Alloc = vc.declare(vc.fresh("alloc"), "Int")
	vc.assume("(>= " + h.Alloc + " " + old + ")")
	for _, g := range vc.root().nonNilGlobs {
		vc.assume(not(eq(sel(sel(sel(h.H[SIface], g), "0"), "0"), "niliface")))
	}
}

// ---------------------------------------------------------------- constants

func (vc *VC) constVal(c *ssa.Const) []string {
	t := c.Type()
	if c.Value == nil {
		return vc.zeroVals(t)
	}
	switch {
	case isBool(t):
		if constant.BoolVal(c.Value) {
			return []string{"true"}
		}
		return []string{"false"}
	case isString(t):
		return []string{vc.strLit(constant.StringVal(c.Value))}
	case isInteger(t):
		s := c.Value.ExactString()
		if strings.HasPrefix(s, "-") {
			s = "(- " + s[1:] + ")"
		}
		return []string{s}
	case isFloat(t):
		f, _ := constant.Float64Val(c.Value)
		return []string{vc.f64Lit(f)}
	}
	vc.note("unsupported constant type " + t.String())
	return vc.freshVals("const", t)
}

// ---------------------------------------------------------------- value lookup

func (vc *VC) val(v ssa.Value) []string {
	if r, ok := vc.vals[v]; ok {
		return r
	}
	switch x := v.(type) {
	case *ssa.Const:
		r := vc.constVal(x)
		return r
	case *ssa.Global:
		// address of a package-level variable: a fixed object per global
		name := "glob_" + sanitize(x.Pkg.Pkg.Path()+"."+x.Name())
		vc.declare(name, "Int")
		r := []string{"(mkptr " + name + " 0 0)"}
		vc.assume("(and (< 0 " + name + ") (<= " + name + " " + vc.root().heap0.Alloc + "))")
		gid := vc.typeID2("global:" + x.Pkg.Pkg.Path() + "." + x.Name())
		vc.recordIDType(gid, x.Type().Underlying().(*types.Pointer).Elem())
		vc.assume("(= (dyntype " + name + ") " + num(int64(gid)) + ")")
		if vc.P.nonNilGlobal(x) {
			root := vc.root()
			root.nonNilGlobs = append(root.nonNilGlobs, name)
			vc.assume(not(eq(sel(sel(sel(root.heap0.H[SIface], name), "0"), "0"), "niliface")))
		}
		vc.vals[v] = r
		return r
	case *ssa.Function:
		name := "fn_" + sanitize(funcKey(x))
		vc.declare(name, "Int")
		r := []string{name}
		vc.vals[v] = r
		return r
	case *ssa.FreeVar:
		r := vc.freshVals("free_"+x.Name(), x.Type())
		vc.assumeRanges("true", r, x.Type(), vc.root().heap0)
		vc.vals[v] = r
		return r
	case *ssa.Builtin:
		return []string{"0"}
	}
	// value not yet translated (defined in a block processed later or unreachable): declare fresh
	r := vc.freshVals("undef_"+v.Name(), v.Type())
	vc.vals[v] = r
	return r
}

func (vc *VC) val1(v ssa.Value) string {
	r := vc.val(v)
	if len(r) == 0 {
		return "0"
	}
	return r[0]
}

func (vc *VC) setVal(v ssa.Value, terms []string) {
	ls := vc.L.Leaves(v.Type())
	out := make([]string, len(terms))
	for i, t := range terms {
		s := "Int"
		if i < len(ls) {
			s = ls[i].Sort.SMT()
		}
		if isSimpleTerm(t) {
			out[i] = t
		} else {
			out[i] = vc.define(v.Name(), s, t)
		}
	}
	vc.vals[v] = out
}

func isSimpleTerm(t string) bool {
	return !strings.ContainsAny(t, "( ")
}

// ---------------------------------------------------------------- positions

func (vc *VC) pos(p token.Pos) string {
	if !p.IsValid() {
		return ""
	}
	ps := vc.P.Prog.Fset.Position(p)
	return fmt.Sprintf("%s:%d", relRepo(ps.Filename), ps.Line)
}

// ---------------------------------------------------------------- loops

func (vc *VC) findLoops() error {
	fn := vc.fn
	vc.loopOf = map[*ssa.BasicBlock]*loopInfo{}
	for _, b := range fn.Blocks {
		for _, s := range b.Succs {
			if s.Dominates(b) { // back edge b -> s
				li := vc.loopOf[s]
				if li == nil {
					li = &loopInfo{header: s, body: map[*ssa.BasicBlock]bool{s: true}}
					vc.loopOf[s] = li
					vc.loops = append(vc.loops, li)
				}
				li.backs = append(li.backs, b)
				// natural loop body
				stack := []*ssa.BasicBlock{b}
				for len(stack) > 0 {
					x := stack[len(stack)-1]
					stack = stack[:len(stack)-1]
					if li.body[x] {
						continue
					}
					li.body[x] = true
					stack = append(stack, x.Preds...)
				}
			}
		}
	}
	sort.Slice(vc.loops, func(i, j int) bool { return vc.loops[i].header.Index < vc.loops[j].header.Index })
	var stmts []ast.Stmt
	if syn := fn.Syntax(); syn != nil {
		switch s := syn.(type) {
		case *ast.FuncDecl:
			stmts = loopStmts(s.Body)
		case *ast.FuncLit:
			stmts = loopStmts(s.Body)
		}
	}
	// order loops by source position of their statement when we can match counts
	if len(stmts) == len(vc.loops) {
		// match by position: the header (or its first successor body) contains an instruction
		// positioned inside exactly one innermost statement; fall back to index order.
		for i, li := range vc.loops {
			li.ord = i + 1
			li.stmt = stmts[i]
		}
	} else {
		for i, li := range vc.loops {
			li.ord = i + 1
		}
		if len(vc.loops) > 0 {
			vc.note(fmt.Sprintf("loop/statement count mismatch in %s (%d SSA loops, %d statements)", vc.key, len(vc.loops), len(stmts)))
		}
	}
	if vc.ct != nil {
		for ord, ls := range vc.ct.Loops {
			if ord < 1 || ord > len(vc.loops) {
				return fmt.Errorf("%s: loop #%d does not exist (function has %d loops)", vc.key, ord, len(vc.loops))
			}
			li := vc.loops[ord-1]
			li.spec = ls
			if ls.Header != "" && li.stmt != nil {
				got := vc.stmtHeader(li.stmt)
				if normWS(got) != normWS(ls.Header) {
					// try to find the loop with that header text
					found := false
					for _, lj := range vc.loops {
						if lj.stmt != nil && normWS(vc.stmtHeader(lj.stmt)) == normWS(ls.Header) && lj.spec == nil {
							li.spec = nil
							lj.spec = ls
							found = true
							break
						}
					}
					if !found {
						return fmt.Errorf("%s: loop #%d header is %q, contract says %q", vc.key, ord, got, ls.Header)
					}
				}
			}
		}
	}
	return nil
}

func normWS(s string) string { return strings.Join(strings.Fields(s), " ") }

func (vc *VC) stmtHeader(s ast.Stmt) string {
	fset := vc.P.Prog.Fset
	var end token.Pos
	switch x := s.(type) {
	case *ast.ForStmt:
		end = x.Body.Lbrace
	case *ast.RangeStmt:
		end = x.Body.Lbrace
	}
	f := fset.File(s.Pos())
	if f == nil {
		return ""
	}
	src := vc.srcBytes(f.Name())
	if src == nil {
		return ""
	}
	a, b := f.Offset(s.Pos()), f.Offset(end)
	if a < 0 || b > len(src) || a > b {
		return ""
	}
	return strings.TrimSpace(string(src[a:b]))
}

var srcCache = map[string][]byte{}

func (vc *VC) srcBytes(name string) []byte {
	if b, ok := srcCache[name]; ok {
		return b
	}
	b, _ := readFileBytes(name)
	srcCache[name] = b
	return b
}

// rpo returns blocks in reverse post-order ignoring back edges.
func (vc *VC) rpo() []*ssa.BasicBlock {
	seen := map[*ssa.BasicBlock]bool{}
	var post []*ssa.BasicBlock
	var dfs func(b *ssa.BasicBlock)
	dfs = func(b *ssa.BasicBlock) {
		seen[b] = true
		for _, s := range b.Succs {
			if s.Dominates(b) {
				continue
			}
			if !seen[s] {
				dfs(s)
			}
		}
		post = append(post, b)
	}
	if len(vc.fn.Blocks) > 0 {
		dfs(vc.fn.Blocks[0])
	}
	for i, j := 0, len(post)-1; i < j; i, j = i+1, j-1 {
		post[i], post[j] = post[j], post[i]
	}
	return post
}
