package main

import (
	"fmt"
	"go/token"
	"go/types"
	"os"
	"sort"
	"strings"

	"golang.org/x/tools/go/ssa"
)

func readFileBytes(name string) ([]byte, error) { return os.ReadFile(name) }

func NewVC(P *Program, CS *ContractSet, L *Layout, fn *ssa.Function, ct *FuncContract) *VC {
	vc := &VC{P: P, CS: CS, L: L, fn: fn, ct: ct, key: funcKey(fn),
		declSet: map[string]bool{}, vals: map[ssa.Value][]string{},
		blockOut: map[*ssa.BasicBlock]Heap{}, blockR: map[*ssa.BasicBlock]string{},
		strConst: map[string]string{}, f64Const: map[string]string{}, typeIDs: map[string]int{}, ufDecl: map[string]bool{},
		notes: map[string]bool{}, assumed: map[string]bool{}, callees: map[string]bool{},
		blockExit: map[*ssa.BasicBlock]string{}, rangeOf: map[ssa.Value]ssa.Value{}, atCallSeen: map[string]int{}}
	vc.nestedBV = P.nestedByValue()
	return vc
}

// nestedByValue computes the named struct types that occur by value inside another struct,
// array or slice element (their pointers may be interior pointers).
func (P *Program) nestedByValue() map[types.Type]bool {
	if P.nested != nil {
		return P.nested
	}
	out := map[types.Type]bool{}
	P.arrayElems = map[string]bool{}
	P.elemTypes = map[string]types.Type{}
	seen := map[types.Type]bool{}
	var walk func(t types.Type, inside bool)
	walk = func(t types.Type, inside bool) {
		if n, ok := t.(*types.Named); ok {
			if inside {
				if _, isS := n.Underlying().(*types.Struct); isS {
					out[n] = true
				}
			}
			if seen[n] {
				return
			}
			seen[n] = true
			walk(n.Underlying(), false)
			return
		}
		switch u := t.(type) {
		case *types.Struct:
			for i := 0; i < u.NumFields(); i++ {
				walk(u.Field(i).Type(), true)
			}
		case *types.Array:
			P.arrayElems[types.TypeString(u.Elem(), nil)] = true
			P.elemTypes[types.TypeString(u.Elem(), nil)] = u.Elem()
			walk(u.Elem(), true)
		case *types.Slice:
			P.elemTypes[types.TypeString(u.Elem(), nil)] = u.Elem()
			walk(u.Elem(), true)
		case *types.Pointer:
			walk(u.Elem(), false)
		case *types.Map:
			walk(u.Key(), false)
			walk(u.Elem(), false)
		case *types.Chan:
			walk(u.Elem(), true)
		case *types.Signature:
			for i := 0; i < u.Params().Len(); i++ {
				walk(u.Params().At(i).Type(), false)
			}
			for i := 0; i < u.Results().Len(); i++ {
				walk(u.Results().At(i).Type(), false)
			}
		}
	}
	for _, p := range P.Prog.AllPackages() {
		sc := p.Pkg.Scope()
		for _, n := range sc.Names() {
			if tn, ok := sc.Lookup(n).(*types.TypeName); ok {
				walk(tn.Type(), false)
				if nt, isN := tn.Type().(*types.Named); isN && nt.TypeArgs().Len() == 0 && nt.TypeParams().Len() == 0 {
					if _, isS := nt.Underlying().(*types.Struct); isS {
						P.namedStructs = append(P.namedStructs, nt)
					}
				}
			}
		}
	}
	P.nested = out
	return out
}

// collectMapKinds pre-registers every map heap kind reachable from the function's types so
// that a havoc covers them all.
func (vc *VC) collectMapKinds(h *Heap) {
	seen := map[types.Type]bool{}
	var walk func(t types.Type, d int)
	walk = func(t types.Type, d int) {
		if t == nil || seen[t] || d > 8 {
			return
		}
		seen[t] = true
		switch u := t.Underlying().(type) {
		case *types.Map:
			if kl, ok := vc.mapKeyLeaf(u); ok {
				vc.mapDom(h, kl)
				vc.mapLen(h)
				for _, l := range vc.L.Leaves(u.Elem()) {
					vc.mapVal(h, kl, l.Sort)
				}
			}
			walk(u.Elem(), d+1)
		case *types.Struct:
			for i := 0; i < u.NumFields(); i++ {
				walk(u.Field(i).Type(), d+1)
			}
		case *types.Pointer:
			walk(u.Elem(), d+1)
		case *types.Slice:
			walk(u.Elem(), d+1)
		case *types.Array:
			walk(u.Elem(), d+1)
		case *types.Tuple:
			for i := 0; i < u.Len(); i++ {
				walk(u.At(i).Type(), d+1)
			}
		}
	}
	var fwalk func(fn *ssa.Function, d int)
	fseen := map[*ssa.Function]bool{}
	fwalk = func(fn *ssa.Function, d int) {
		if fn == nil || fseen[fn] || d > 2 {
			return
		}
		fseen[fn] = true
		for _, p := range fn.Params {
			walk(p.Type(), 0)
		}
		for _, p := range fn.FreeVars {
			walk(p.Type(), 0)
		}
		walk(fn.Signature.Results(), 0)
		for _, b := range fn.Blocks {
			for _, in := range b.Instrs {
				if v, ok := in.(ssa.Value); ok {
					walk(v.Type(), 0)
				}
				if c, ok := in.(ssa.CallInstruction); ok {
					if cal := c.Common().StaticCallee(); cal != nil {
						fwalk(cal, d+1)
					}
				}
			}
		}
		for _, a := range fn.AnonFuncs {
			fwalk(a, d)
		}
	}
	fwalk(vc.fn, 0)
	vc.mapLen(h)
	for _, g := range sortedKeys(vc.CS.Ghosts) {
		vc.ghostHeap(h, g)
	}
}

// ---------------------------------------------------------------- driver

func (vc *VC) Generate() (err error) {
	defer func() {
		if r := recover(); r != nil {
			if e, ok := r.(vcError); ok {
				err = fmt.Errorf("%s: %s", vc.key, string(e))
				return
			}
			panic(r)
		}
	}()
	fn := vc.fn
	if len(fn.Blocks) == 0 {
		return fmt.Errorf("%s: no body", vc.key)
	}
	h := Heap{M: map[string]string{}}
	for s := Sort(0); s < nSorts; s++ {
		h.H[s] = vc.declare("H"+sortTag[s]+"_0", heapSortName(s))
	}
	h.Alloc = vc.declare("alloc_0", "Int")
	vc.assume("(<= 0 alloc_0)")
	vc.collectMapKinds(&h)
	vc.heap0 = h.clone()
	vc.recordBounds(&h)
	for _, p := range fn.Params {
		terms := vc.freshVals("p_"+p.Name(), p.Type())
		vc.vals[p] = terms
		vc.assumeRanges("true", terms, p.Type(), h)
	}
	for _, fv := range fn.FreeVars {
		terms := vc.freshVals("fv_"+fv.Name(), fv.Type())
		vc.vals[fv] = terms
		vc.assumeRanges("true", terms, fv.Type(), h)
	}
	if err := vc.findLoops(); err != nil {
		return err
	}
	// requires
	if vc.ct != nil {
		vc.factGuard = "true"
		ev := vc.newEval(vc.fn, h, h, nil)
		for i, c := range vc.ct.Requires {
			t, err := ev.boolExpr(c.E, false)
			if err != nil {
				return fmt.Errorf("%s: requires#%d: %v", vc.key, i+1, err)
			}
			vc.flushSkolems(ev, "true")
			vc.assume(t)
		}
	}
	vc.factGuard = ""
	vc.translateBody("true", h)
	if vc.ct != nil {
		if err := vc.postObligations(); err != nil {
			return err
		}
		if err := vc.bindsObligations(); err != nil {
			return err
		}
	}
	return nil
}

type vcError string

func (vc *VC) fail(format string, a ...any) { panic(vcError(fmt.Sprintf(format, a...))) }

// translateBody walks the CFG (back edges cut) from the entry with the given guard and heap.
func (vc *VC) translateBody(entryGuard string, h0 Heap) {
	fn := vc.fn
	order := vc.rpo()
	edgeCond := func(p, b *ssa.BasicBlock) string {
		r := vc.blockExitR(p)
		if iff, ok := p.Instrs[len(p.Instrs)-1].(*ssa.If); ok {
			c := vc.val1(iff.Cond)
			if p.Succs[0] == b && p.Succs[1] == b {
				return r
			}
			if p.Succs[0] == b {
				return and(r, c)
			}
			return and(r, not(c))
		}
		return r
	}
	for _, b := range order {
		var h Heap
		var R string
		li := vc.loopOf[b]
		if b == fn.Blocks[0] {
			h = h0.clone()
			R = entryGuard
		} else {
			var conds []string
			var hs []Heap
			var preds []*ssa.BasicBlock
			for _, p := range b.Preds {
				if li != nil && li.body[p] && b.Dominates(p) {
					continue // back edge
				}
				if _, done := vc.blockOut[p]; !done {
					continue // unreachable predecessor
				}
				preds = append(preds, p)
				conds = append(conds, edgeCond(p, b))
				hs = append(hs, vc.blockOut[p])
			}
			if len(preds) == 0 {
				continue
			}
			R = vc.define("R_b"+fmt.Sprint(b.Index), "Bool", or(conds...))
			h = vc.mergeHeaps(conds, hs)
			// phis
			for _, in := range b.Instrs {
				phi, ok := in.(*ssa.Phi)
				if !ok {
					break
				}
				var inc [][]string
				for _, p := range preds {
					for j, pp := range b.Preds {
						if pp == p {
							inc = append(inc, vc.val(phi.Edges[j]))
							break
						}
					}
				}
				nl := len(vc.L.Leaves(phi.Type()))
				terms := make([]string, nl)
				for k := 0; k < nl; k++ {
					t := inc[len(inc)-1][k]
					for i := len(inc) - 2; i >= 0; i-- {
						t = ite(conds[i], inc[i][k], t)
					}
					terms[k] = t
				}
				if li != nil {
					if li.phiEntry == nil {
						li.phiEntry = map[ssa.Value][]string{}
					}
					li.phiEntry[phi] = terms
				} else {
					vc.setVal(phi, terms)
				}
			}
		}
		vc.blockR[b] = R
		if li != nil {
			vc.loopHeader(li, R, &h)
		}
		vc.recordBounds(&h)
		if false {
		}
		vc.curR = R
		vc.curBlock = b
		for _, in := range b.Instrs {
			if _, ok := in.(*ssa.Phi); ok {
				continue
			}
			vc.instr(in, &h)
			vc.recordBounds(&h)
		}
		vc.blockOut[b] = h
		vc.blockExit[b] = vc.curR
		// back edges out of b
		for _, s := range b.Succs {
			if lj := vc.loopOf[s]; lj != nil && lj.body[b] && s.Dominates(b) {
				vc.backEdge(lj, b, edgeCond(b, s), h)
			}
		}
	}
}

func (vc *VC) blockExitR(b *ssa.BasicBlock) string {
	if r, ok := vc.blockExit[b]; ok {
		return r
	}
	return vc.blockR[b]
}

// ---------------------------------------------------------------- loops

func (vc *VC) loopHeader(li *loopInfo, R string, h *Heap) {
	li.entryHeap = h.clone()
	name := fmt.Sprintf("loop#%d", li.ord)
	// 1. invariants hold on entry
	vc.root().factGuard = R
	defer func() { vc.root().factGuard = "" }()
	if li.spec != nil {
		ev := vc.newEval(vc.fn, *h, vc.heap0, li)
		ev.override = li.phiEntry
		for i, c := range li.spec.Invs {
			vc.goalClause(ev, c, fmt.Sprintf("%s/%s/inv-entry#%d", vc.key, name, i+1), "inv-entry", R, vc.pos(li.header.Instrs[0].Pos()))
		}
	}
	// 2. havoc what the loop may write
	vc.havocLoop(li, h)
	for _, in := range li.header.Instrs {
		phi, ok := in.(*ssa.Phi)
		if !ok {
			break
		}
		terms := vc.freshVals("phi_"+phi.Comment, phi.Type())
		vc.vals[phi] = terms
		vc.assumeRanges("true", terms, phi.Type(), *h)
	}
	li.headHeap = h.clone()
	// 3. assume invariants for the arbitrary iteration
	if li.spec != nil {
		ev := vc.newEval(vc.fn, *h, vc.heap0, li)
		for i, c := range li.spec.Invs {
			t, err := ev.boolExpr(c.E, false)
			if err != nil {
				vc.fail("%s invariant#%d: %v", name, i+1, err)
			}
			vc.flushSkolems(ev, R)
			vc.assume(implies(R, t))
		}
		if li.spec.Decreases != nil {
			v, err := ev.intExpr(li.spec.Decreases.E)
			if err != nil {
				vc.fail("%s decreases: %v", name, err)
			}
			li.variant0 = vc.define("variant", "Int", v)
		}
		li.nondec0 = nil
		for _, c := range li.spec.Nondec {
			v, err := ev.intExpr(c.E)
			if err != nil {
				vc.fail("%s nondecreasing: %v", name, err)
			}
			li.nondec0 = append(li.nondec0, vc.define("nondec", "Int", v))
		}
	}
	// free facts for range-over-slice / range-over-int loops
	vc.rangeLoopFacts(li, R)
}

// rangeLoopFacts: go/ssa lowers `for i := range s` to a phi i starting at -1, incremented at
// the header, compared with len. The bounds -1 <= i < len are a free invariant.
func (vc *VC) rangeLoopFacts(li *loopInfo, R string) {
	for _, in := range li.header.Instrs {
		phi, ok := in.(*ssa.Phi)
		if !ok {
			break
		}
		if !isInteger(phi.Type()) {
			continue
		}
		if !strings.HasPrefix(li.header.Comment, "rangeindex") {
			continue
		}
		// find "t = phi + 1" and "t < n" in the header
		for _, in2 := range li.header.Instrs {
			bo, ok := in2.(*ssa.BinOp)
			if !ok || bo.Op != token.LSS {
				continue
			}
			inc, ok := bo.X.(*ssa.BinOp)
			if !ok || inc.Op != token.ADD || inc.X != phi {
				continue
			}
			// n is loop invariant (evaluated before the loop)
			nterm := vc.val1(bo.Y)
			p := vc.val1(phi)
			// p is -1 on entry and p+1 < n was checked before every back edge: -1 <= p <= n-1
			vc.assume(implies(R, "(and (<= (- 1) "+p+") (< "+p+" (+ "+nterm+" 1)) (<= "+p+" (- "+nterm+" 1)) (<= 0 "+nterm+"))"))
			li.autoRange = true
		}
	}
}

func (vc *VC) backEdge(li *loopInfo, from *ssa.BasicBlock, cond string, h Heap) {
	name := fmt.Sprintf("loop#%d", li.ord)
	if li.spec == nil {
		return
	}
	vc.root().factGuard = cond
	defer func() { vc.root().factGuard = "" }()
	over := map[ssa.Value][]string{}
	for _, in := range li.header.Instrs {
		phi, ok := in.(*ssa.Phi)
		if !ok {
			break
		}
		for j, p := range li.header.Preds {
			if p == from {
				over[phi] = vc.val(phi.Edges[j])
			}
		}
	}
	ev := vc.newEval(vc.fn, h, vc.heap0, li)
	ev.override = over
	for i, c := range li.spec.Invs {
		vc.goalClause(ev, c, fmt.Sprintf("%s/%s/inv-preserve#%d@b%d", vc.key, name, i+1, from.Index), "inv-preserve", cond, vc.pos(li.header.Instrs[0].Pos()))
	}
	if li.spec.Decreases != nil {
		v, err := ev.intExpr(li.spec.Decreases.E)
		if err != nil {
			vc.fail("%s decreases: %v", name, err)
		}
		vc.addObl(&Obligation{Name: fmt.Sprintf("%s/%s/decreases@b%d", vc.key, name, from.Index), Kind: "decreases",
			Goal: implies(cond, "(and (< "+v+" "+li.variant0+") (<= 0 "+li.variant0+"))"), Src: li.spec.Decreases.Src,
			Pos: vc.pos(li.header.Instrs[0].Pos())})
	}
	for i, c := range li.spec.Nondec {
		if i >= len(li.nondec0) {
			break
		}
		v, err := ev.intExpr(c.E)
		if err != nil {
			vc.fail("%s nondecreasing: %v", name, err)
		}
		vc.addObl(&Obligation{Name: fmt.Sprintf("%s/%s/nondecreasing#%d@b%d", vc.key, name, i+1, from.Index), Kind: "nondecreasing",
			Goal: implies(cond, "(>= "+v+" "+li.nondec0[i]+")"), Src: "never decreases across an iteration: " + c.Src,
			Pos: vc.pos(li.header.Instrs[0].Pos())})
	}
}

// havocLoop: replace the heap components the loop body may write by fresh ones.
func (vc *VC) havocLoop(li *loopInfo, h *Heap) {
	preLoop := h.clone()
	defer func() { vc.keepPrivateCells(li, h, preLoop) }()
	type target struct {
		sort      Sort
		obj, slot string // loop-invariant object/slot terms, or ""
		coarse    bool
		dyn       int // for coarse targets: dyntype of the objects that may be written (0 = unknown)
		slotOff   int // for coarse targets with dyn: slot written (-1 = any)
		freshOnly bool // the written objects were all allocated by this function (append/copy into a slice built here)
	}
	var targets []target
	coarseAll := false
	mapsTouched := false
	mapTypes := map[int]bool{}
	var preciseMaps []string
	ghostHavoc := map[string]bool{}
	if vc.loopMayUpdateLocalGhosts(li) {
		for _, g := range vc.localGhosts() {
			ghostHavoc[g] = true // accumulators updated by at-call clauses inside the loop (also in inlined callees)
		}
	}
	defer func() {
		for _, g := range sortedKeys(ghostHavoc) {
			if gd, ok := vc.CS.Ghosts[g]; ok {
				h.M["G_"+g] = vc.declare(vc.fresh("G_"+sanitize(g)), gd.SMTSort())
			}
		}
	}()
	allocs := false
	invariantVal := func(v ssa.Value) bool {
		switch x := v.(type) {
		case *ssa.Parameter, *ssa.Const, *ssa.Global, *ssa.FreeVar, *ssa.Function:
			return true
		case ssa.Instruction:
			return !li.body[x.Block()]
		}
		return false
	}
	var addrOf func(v ssa.Value) (Addr, bool)
	addrOf = func(v ssa.Value) (Addr, bool) {
		if invariantVal(v) {
			if _, ok := vc.vals[v]; ok || !isInstr(v) {
				return ptrAddr(vc.val1(v)), true
			}
			return Addr{}, false
		}
		switch x := v.(type) {
		case *ssa.FieldAddr:
			base, ok := addrOf(x.X)
			if !ok {
				return Addr{}, false
			}
			st := x.X.Type().Underlying().(*types.Pointer).Elem().Underlying().(*types.Struct)
			off, _ := vc.L.FieldOffset(st, x.Field)
			return base.Plus(off), true
		case *ssa.UnOp:
			// a pointer re-read in every iteration from a local cell (a captured or address-taken
			// variable) that the loop neither assigns nor passes to a call
			if x.Op != token.MUL {
				return Addr{}, false
			}
			cell, isAlloc := x.X.(*ssa.Alloc)
			if !isAlloc || !invariantVal(cell) {
				return Addr{}, false
			}
			if _, isPtr := x.Type().Underlying().(*types.Pointer); !isPtr {
				return Addr{}, false
			}
			if _, have := vc.vals[cell]; !have {
				return Addr{}, false
			}
			for b := range li.body {
				for _, in := range b.Instrs {
					if st, ok := in.(*ssa.Store); ok && st.Addr == cell {
						return Addr{}, false
					}
					if c, ok := in.(ssa.CallInstruction); ok {
						for _, a := range c.Common().Args {
							if a == cell {
								return Addr{}, false
							}
						}
						if mc, ok := c.Common().Value.(*ssa.MakeClosure); ok {
							for _, bnd := range mc.Bindings {
								if bnd == cell {
									return Addr{}, false
								}
							}
						}
					}
					if mc, ok := in.(*ssa.MakeClosure); ok {
						for _, bnd := range mc.Bindings {
							if bnd == cell {
								return Addr{}, false
							}
						}
					}
				}
			}
			ca := ptrAddr(vc.val1(cell))
			return ptrAddr(sel(sel(sel(h.H[SPtr], ca.Obj), ca.Slot), ca.Idx)), true
		}
		return Addr{}, false
	}
	for b := range li.body {
		for _, in := range b.Instrs {
			if vc.skipped(in) {
				continue
			}
			switch x := in.(type) {
			case *ssa.Store:
				if perIterationLocal(x.Addr, li) {
					continue // a non-escaping local declared in the loop body: a new object every iteration
				}
				ls := vc.L.Leaves(x.Val.Type())
				a, ok := addrOf(x.Addr)
				if !ok {
					// IndexAddr into an invariant slice/array pointer: whole idx row of that object
					if ia, isIA := x.Addr.(*ssa.IndexAddr); isIA && invariantVal(ia.X) {
						if _, have := vc.vals[ia.X]; have || !isInstr(ia.X) {
							base := vc.val1(ia.X)
							var obj, slot string
							if _, isSl := ia.X.Type().Underlying().(*types.Slice); isSl {
								obj, slot = "(s_obj "+base+")", "(s_slot "+base+")"
							} else {
								pa := ptrAddr(base)
								obj, slot = pa.Obj, pa.Slot
							}
							for i, l := range ls {
								targets = append(targets, target{sort: l.Sort, obj: obj, slot: plus(slot, num(int64(i)))})
							}
							continue
						}
					}
					// store through a loop-variant pointer: restrict by the static type where we can
					dyn, so := 0, -1
					switch a := x.Addr.(type) {
					case *ssa.FieldAddr:
						pt := a.X.Type().Underlying().(*types.Pointer).Elem()
						if id, ok := vc.baseType(pt); ok {
							dyn = id
							so, _ = vc.L.FieldOffset(pt.Underlying().(*types.Struct), a.Field)
						}
					case *ssa.IndexAddr:
						if id, ok := vc.backingType(a.X.Type()); ok {
							dyn = id
							so = 0
						} else if pp, isP := a.X.Type().Underlying().(*types.Pointer); isP {
							if id, ok := vc.backingType(pp.Elem()); ok {
								dyn, so = id, 0
							}
						}
					}
					fo := dyn != 0 && addrBuiltHere(x.Addr)
					for i, l := range ls {
						s2 := so
						if so >= 0 {
							s2 = so + i
						}
						targets = append(targets, target{sort: l.Sort, coarse: true, dyn: dyn, slotOff: s2, freshOnly: fo})
					}
					continue
				}
				for i, l := range ls {
					targets = append(targets, target{sort: l.Sort, obj: a.Obj, slot: plus(a.Slot, num(int64(i)))})
				}
			case *ssa.MapUpdate:
				// a map read from a field of a loop-invariant object, where the loop never stores
				// to that field: one specific map object
				if ld, ok := x.Map.(*ssa.UnOp); ok {
					if fa, ok := ld.X.(*ssa.FieldAddr); ok {
						if a, ok := addrOf(fa); ok && !vc.loopStoresField(li, fa) {
							preciseMaps = append(preciseMaps, sel(sel(sel(h.H[SRef], a.Obj), a.Slot), a.Idx))
							continue
						}
					}
				}
				if invariantVal(x.Map) {
					if _, have := vc.vals[x.Map]; have {
						preciseMaps = append(preciseMaps, vc.val1(x.Map))
						continue
					}
				}
				mapsTouched = true
				mapTypes[vc.mapTypeID(x.Map.Type())] = true
			case *ssa.Alloc, *ssa.MakeSlice, *ssa.MakeMap, *ssa.MakeInterface, *ssa.MakeClosure, *ssa.MakeChan:
				allocs = true
			case ssa.CallInstruction:
				cc := x.Common()
				if bi, ok := cc.Value.(*ssa.Builtin); ok {
					switch bi.Name() {
					case "len", "cap", "min", "max", "panic", "print", "println", "real", "imag":
						continue
					case "delete":
						mapsTouched = true
						mapTypes[vc.mapTypeID(cc.Args[0].Type())] = true
						continue
					case "append", "copy":
						allocs = true
						dyn, _ := vc.backingType(cc.Args[0].Type())
						fo := dyn != 0 && sliceBuiltHere(cc.Args[0], map[ssa.Value]bool{})
						for i, l := range vc.L.Leaves(sliceElem(cc.Args[0].Type())) {
							targets = append(targets, target{sort: l.Sort, coarse: true, dyn: dyn, slotOff: i, freshOnly: fo})
						}
						continue
					}
				}
				if vc.callIsPure(cc) {
					allocs = true
					continue
				}
				if n := calleeName(cc); strings.HasPrefix(n, "sort.Slice") || n == "sort.Strings" || n == "sort.Ints" {
					var st types.Type
					if mi, ok := cc.Args[0].(*ssa.MakeInterface); ok {
						st = mi.X.Type()
					} else {
						st = cc.Args[0].Type()
					}
					if id, ok := vc.backingType(st); ok {
						allocs = true
						for i, l := range vc.L.Leaves(sliceElem(st)) {
							targets = append(targets, target{sort: l.Sort, coarse: true, dyn: id, slotOff: i})
						}
						continue
					}
				}
				if isLockOp(calleeName(cc)) != "" {
					// mutex state lives at the mutex address: typed by the struct that holds it
					if a, ok := addrOf(cc.Args[0]); ok {
						targets = append(targets, target{sort: SInt, obj: a.Obj, slot: a.Slot})
						mt := cc.Args[0].Type().Underlying().(*types.Pointer).Elem()
						if rs := vc.rwReaderSlot(mt); rs != 0 {
							targets = append(targets, target{sort: SInt, obj: a.Obj, slot: plus(a.Slot, num(int64(rs)))})
						}
						continue
					}
					coarseAll = true
					continue
				}
				// calls with a contract: their modifies clauses, by static type
				if ts, ghosts, ok := vc.contractLoopTargets(cc); ok {
					allocs = true
					for _, t := range ts {
						targets = append(targets, target{sort: t.sort, coarse: true, dyn: t.dyn, slotOff: t.slot})
					}
					for _, g := range ghosts {
						ghostHavoc[g] = true
					}
					continue
				}
				// an uncontracted callee that will be inlined and only reads (getters, small pure helpers)
				if callee := cc.StaticCallee(); callee != nil && !cc.IsInvoke() && vc.canInline(callee) && vc.readsOnly(callee, 0) {
					allocs = true
					continue
				}
				coarseAll = true
			case *ssa.Go, *ssa.Send, *ssa.Select:
				coarseAll = true
			}
		}
	}
	if coarseAll {
		// accumulator ghosts that no call in the loop can update survive (as they survive a single call
		// of unknown code); the ones the loop may update are re-havocked by the deferred step above
		var keepAcc []string
		for _, g := range vc.localGhosts() {
			if !ghostHavoc[g] {
				keepAcc = append(keepAcc, g)
			}
		}
		vc.havocAll(h, fmt.Sprintf("loop#%d of %s contains calls with unknown effects", li.ord, vc.key), keepAcc...)
		return
	}
	done := map[string]bool{}
	// coarse targets per sort: either fully unknown, or restricted to (dyntype, slot) pairs
	type dynSlot struct{ dyn, slot int }
	coarseDyn := map[Sort][]dynSlot{}
	coarseFull := map[Sort]bool{}
	notFreshOnly := map[Sort]bool{} // some typed target of the sort may write an object that existed at function entry
	for _, t := range targets {
		if t.coarse {
			if t.dyn == 0 {
				coarseFull[t.sort] = true
			} else {
				coarseDyn[t.sort] = append(coarseDyn[t.sort], dynSlot{t.dyn, t.slotOff})
				if !t.freshOnly {
					notFreshOnly[t.sort] = true
				}
			}
		}
	}
	for s := Sort(0); s < nSorts; s++ {
		if coarseFull[s] {
			done["coarse"+sortTag[s]] = true
			vc.note(fmt.Sprintf("loop#%d of %s: coarse havoc of heap kind %s", li.ord, vc.key, sortTag[s]))
			h.H[s] = vc.newHeapConst(s)
			continue
		}
		ds := coarseDyn[s]
		if len(ds) == 0 {
			continue
		}
		// typed havoc: only objects of the listed dynamic types, only the listed slots
		old := h.H[s]
		nh := vc.newHeapConst(s)
		var isT []string
		seenT := map[int]bool{}
		for _, d := range ds {
			if !seenT[d.dyn] {
				seenT[d.dyn] = true
				isT = append(isT, "(= (dyntype o) "+num(int64(d.dyn))+")")
			}
		}
		vc.assume(fmt.Sprintf("(forall ((o Int)) (! (=> (not %s) (= (select %s o) (select %s o))) :pattern ((select %s o))))", or(isT...), nh, old, nh))
		if !notFreshOnly[s] {
			// every write of this kind goes into a slice this function built itself (make / nil + append):
			// objects that existed when the function was entered keep their contents
			vc.assume(fmt.Sprintf("(forall ((o Int)) (! (=> (<= o %s) (= (select %s o) (select %s o))) :pattern ((select %s o))))", vc.heap0.Alloc, nh, old, nh))
		}
		var hit []string
		anySlot := false
		for _, d := range ds {
			if d.slot < 0 {
				anySlot = true
			}
			hit = append(hit, "(and (= (dyntype o) "+num(int64(d.dyn))+") (= sl "+num(int64(d.slot))+"))")
		}
		if !anySlot {
			vc.assume(fmt.Sprintf("(forall ((o Int) (sl Int)) (! (=> (not %s) (= (select (select %s o) sl) (select (select %s o) sl))) :pattern ((select (select %s o) sl))))", or(hit...), nh, old, nh))
		}
		h.H[s] = nh
		done["typed"+sortTag[s]] = true
	}
	for _, t := range targets {
		if t.coarse || done["coarse"+sortTag[t.sort]] {
			continue
		}
		k := sortTag[t.sort] + t.obj + "/" + t.slot
		if done[k] {
			continue
		}
		done[k] = true
		cur := h.H[t.sort]
		fr := vc.declare(vc.fresh("hv"), "(Array Int "+innerSort[t.sort]+")")
		h.H[t.sort] = vc.define("H"+sortTag[t.sort], heapSortName(t.sort), sto(cur, t.obj, sto(sel(cur, t.obj), t.slot, fr)))
	}
	if len(preciseMaps) > 0 && !mapsTouched {
		seenM := map[string]bool{}
		for _, m := range preciseMaps {
			if seenM[m] {
				continue
			}
			seenM[m] = true
			for _, k := range sortedKeys(h.M) {
				if strings.HasPrefix(k, "G_") {
					continue
				}
				fr := vc.declare(vc.fresh(k+"_hv"), vc.mapHeapSort(k))
				h.M[k] = vc.define(k, vc.mapHeapSort(k), sto(h.M[k], m, sel(fr, m)))
			}
		}
		allocs = true
	}
	if mapsTouched {
		for _, k := range sortedKeys(h.M) {
			if strings.HasPrefix(k, "G_") {
				continue // ghost state changes only through contracts
			}
			old := h.M[k]
			h.M[k] = vc.declare(vc.fresh(k), vc.mapHeapSort(k))
			// only maps of the updated types change
			var isT []string
			var ids []int
			for id := range mapTypes {
				ids = append(ids, id)
			}
			sort.Ints(ids)
			for _, id := range ids {
				isT = append(isT, "(= (dyntype m) "+num(int64(id))+")")
			}
			vc.assume(fmt.Sprintf("(forall ((m Int)) (! (=> (not %s) (= (select %s m) (select %s m))) :pattern ((select %s m))))", or(isT...), h.M[k], old, h.M[k]))
		}
	}
	if allocs || mapsTouched {
		old := h.Alloc
		h.Alloc = vc.declare(vc.fresh("alloc"), "Int")
		vc.assume("(>= " + h.Alloc + " " + old + ")")
		// Objects created by earlier iterations (numbers in (old, alloc']) hold arbitrary
		// contents. No axiom is needed for that: the heap is unconstrained at object numbers
		// above the allocation counter of the loop entry (zero-initialisation is only ever
		// asserted for the specific object a path allocates, which is alloc'+1 or later here).
	}
}

func isInstr(v ssa.Value) bool { _, ok := v.(ssa.Instruction); return ok }

// addrBuiltHere: the address lies in an object this function allocated (a local variable, a composite
// literal, the hidden array of a variadic call) or in the backing array of a slice it built.
func addrBuiltHere(v ssa.Value) bool {
	for d := 0; d < 8; d++ {
		switch x := v.(type) {
		case *ssa.Alloc:
			return true
		case *ssa.FieldAddr:
			v = x.X
		case *ssa.IndexAddr:
			if _, isSl := x.X.Type().Underlying().(*types.Slice); isSl {
				return sliceBuiltHere(x.X, map[ssa.Value]bool{})
			}
			v = x.X
		default:
			return false
		}
	}
	return false
}

// sliceBuiltHere: the slice value is nil, the result of make, or an append / reslice / phi of such
// values only - its backing array (if any) was allocated by this very function.
func sliceBuiltHere(v ssa.Value, seen map[ssa.Value]bool) bool {
	if seen[v] {
		return true
	}
	seen[v] = true
	switch x := v.(type) {
	case *ssa.MakeSlice:
		return true
	case *ssa.Const:
		return x.IsNil()
	case *ssa.Phi:
		for _, e := range x.Edges {
			if !sliceBuiltHere(e, seen) {
				return false
			}
		}
		return true
	case *ssa.Slice:
		if _, isSl := x.X.Type().Underlying().(*types.Slice); isSl {
			return sliceBuiltHere(x.X, seen)
		}
		return false
	case *ssa.Call:
		if bi, ok := x.Call.Value.(*ssa.Builtin); ok && bi.Name() == "append" {
			return sliceBuiltHere(x.Call.Args[0], seen)
		}
	}
	return false
}

func sliceElem(t types.Type) types.Type {
	switch u := t.Underlying().(type) {
	case *types.Slice:
		return u.Elem()
	case *types.Pointer:
		if a, ok := u.Elem().Underlying().(*types.Array); ok {
			return a.Elem()
		}
	case *types.Array:
		return u.Elem()
	case *types.Basic: // string
		return types.Typ[types.Uint8]
	}
	return types.Typ[types.Int]
}

// ---------------------------------------------------------------- obligations

func (vc *VC) addObl(o *Obligation) {
	o.Func = vc.root().key
	if o.Expect == "" {
		o.Expect = "unsat"
	}
	r := vc.root()
	// the context of an obligation is what was established BEFORE it in program order: a later
	// assumption (the loop invariant assumed after its entry check, a callee's postcondition after
	// its precondition check) must not help to prove an earlier goal
	o.Ctx = len(r.asserts)
	r.obls = append(r.obls, o)
}

// goalClause evaluates a contract clause as a goal under guard and registers one obligation
// per top-level conjunct.
func (vc *VC) goalClause(ev *Eval, c Clause, name, kind, guard, pos string) {
	conj := flattenAnd(c.E)
	for j, e := range conj {
		ev.skolems = nil
		ev.hyps = nil
		t, err := ev.boolExpr(e, true)
		if err != nil {
			vc.fail("%s: %v (in %q)", name, err, c.Src)
		}
		n := name
		if c.Label != "" {
			n = strings.Replace(name, "#", "["+c.Label+"]#", 1)
		}
		if len(conj) > 1 {
			n = fmt.Sprintf("%s.%d", n, j+1)
		}
		vc.addObl(&Obligation{Name: n, Kind: kind, Goal: implies(guard, t), Decls: ev.skolems, Hyps: ev.hyps, Pos: pos, Src: e.String()})
	}
}

func flattenAnd(e Expr) []Expr {
	if b, ok := e.(*EBin); ok && b.Op == "&&" {
		return append(flattenAnd(b.X), flattenAnd(b.Y)...)
	}
	return []Expr{e}
}

func (vc *VC) postObligations() error {
	ct := vc.ct
	defer func() { vc.root().factGuard = "" }()
	for _, r := range vc.rets {
		vc.root().factGuard = r.guard
		if r.guard == "" {
			vc.root().factGuard = "true"
		}
		ev := vc.newEval(vc.fn, r.heap, vc.heap0, nil)
		ev.results = r.vals
		rblk := r.blk
		ev.resolve = func(name string) (EVal, bool) {
			if ev.allowLocals == 0 {
				return EVal{}, false
			}
			return vc.resolveLocalAtBlock(ev, name, rblk)
		}
		pos := vc.pos(r.blk.Instrs[len(r.blk.Instrs)-1].Pos())
		for i, c := range ct.Ensures {
			vc.goalClause(ev, c, fmt.Sprintf("%s/post#%d@b%d", vc.key, i+1, r.blk.Index), "post", r.guard, pos)
		}
		// at-return assert[label] e: as ensures, with the function's locals in scope (their values at
		// this return). Where a named local does not exist yet, `A ==> B` demands !A.
		for i, c := range ct.AtReturn {
			name := fmt.Sprintf("%s/at-return#%d@b%d", vc.key, i+1, r.blk.Index)
			ev.allowLocals++
			ev.probing++
			_, perr := ev.boolExpr(c.E, true)
			ev.probing--
			ev.skolems, ev.hyps = nil, nil
			if perr != nil && strings.Contains(perr.Error(), "unknown name") {
				imp, ok := c.E.(*EBin)
				if !ok || imp.Op != "==>" {
					ev.allowLocals--
					return fmt.Errorf("%s: at-return %s: %v on the return at %s (only `A ==> B` clauses may name locals that do not exist on every return)", vc.key, c.Src, perr, pos)
				}
				neg := Clause{Label: c.Label, Line: c.Line, E: &EUnary{Op: "!", X: imp.X},
					Src: "!(" + imp.X.String() + ")  -- a local named by `" + c.Src + "` does not exist at this return: the premise must be false"}
				vc.goalClause(ev, neg, name, "post", r.guard, pos)
			} else {
				vc.goalClause(ev, c, name, "post", r.guard, pos)
			}
			ev.allowLocals--
		}
		for i, c := range ct.LockBal {
			evOld := vc.newEval(vc.fn, vc.heap0, vc.heap0, nil)
			mv, err := evOld.expr(c.E)
			if err != nil {
				return fmt.Errorf("%s: lock-balanced: %v", vc.key, err)
			}
			a0, mt, err := evOld.mutexAddr(mv)
			if err != nil {
				return fmt.Errorf("%s: lock-balanced: %v", vc.key, err)
			}
			cur := sel(sel(sel(r.heap.H[SInt], a0.Obj), a0.Slot), a0.Idx)
			old := sel(sel(sel(vc.heap0.H[SInt], a0.Obj), a0.Slot), a0.Idx)
			goal := eq(cur, old)
			if rs := vc.rwReaderSlot(mt); rs != 0 {
				ar := a0.Plus(rs)
				goal = and(goal, eq(sel(sel(sel(r.heap.H[SInt], ar.Obj), ar.Slot), ar.Idx), sel(sel(sel(vc.heap0.H[SInt], ar.Obj), ar.Slot), ar.Idx)))
			}
			vc.addObl(&Obligation{Name: fmt.Sprintf("%s/lock-balance#%d@b%d", vc.key, i+1, r.blk.Index), Kind: "lock-balance",
				Goal: implies(r.guard, goal), Pos: pos, Src: "lock-balanced " + c.Src})
		}
		if ct.HasMod && !ct.ModAll {
			if err := vc.frameObligation(r, pos); err != nil {
				return err
			}
		}
	}
	if len(vc.rets) == 0 && len(ct.Ensures) > 0 {
		vc.note("function has no reachable return")
	}
	return nil
}

// frameObligation: every location that existed on entry and is not listed in `modifies`
// holds its entry value on return.
func (vc *VC) frameObligation(r retRec, pos string) error {
	ev := vc.newEval(vc.fn, vc.heap0, vc.heap0, nil)
	type loc struct {
		a      Addr
		n      int
		allIdx bool
		allObj bool
		anyDyn int
	}
	var locs []loc
	for _, m := range vc.ct.Modifies {
		ml, err := ev.modLoc(m.E)
		if err != nil {
			return fmt.Errorf("%s: modifies %s: %v", vc.key, m.Src, err)
		}
		for _, x := range ml {
			if x.ghost != "" || x.allMaps || x.isMap {
				continue
			}
			locs = append(locs, loc{x.a, x.n, x.allIdx, x.allObj, x.anyDyn})
		}
	}
	for s := Sort(0); s < nSorts; s++ {
		if r.heap.H[s] == vc.heap0.H[s] {
			continue
		}
		o, sl, ix := vc.fresh("fo"), vc.fresh("fs"), vc.fresh("fi")
		decls := []string{"(declare-const " + o + " Int)", "(declare-const " + sl + " Int)", "(declare-const " + ix + " Int)"}
		var excl []string
		for _, l := range locs {
			if l.anyDyn != 0 {
				excl = append(excl, and("(= (dyntype "+o+") "+num(int64(l.anyDyn))+")", "(<= "+l.a.Slot+" "+sl+")", "(< "+sl+" "+plus(l.a.Slot, num(int64(l.n)))+")"))
				continue
			}
			c := []string{eq(o, l.a.Obj)}
			if !l.allObj {
				c = append(c, "(<= "+l.a.Slot+" "+sl+")", "(< "+sl+" "+plus(l.a.Slot, num(int64(l.n)))+")")
				if !l.allIdx {
					c = append(c, eq(ix, l.a.Idx))
				}
			}
			excl = append(excl, and(c...))
		}
		hyp := and("(<= "+o+" "+vc.heap0.Alloc+")", not(or(excl...)))
		goal := eq(sel(sel(sel(r.heap.H[s], o), sl), ix), sel(sel(sel(vc.heap0.H[s], o), sl), ix))
		vc.addObl(&Obligation{Name: fmt.Sprintf("%s/frame[%s]@b%d", vc.key, sortTag[s], r.blk.Index), Kind: "frame",
			Decls: decls, Goal: implies(and(r.guard, hyp), goal), Pos: pos, Src: "modifies clause"})
	}
	// maps: if any map heap changed, require that a `modifies` mentions maps (coarse)
	for _, k := range sortedKeys(r.heap.M) {
		if r.heap.M[k] != vc.root().heap0M(k) {
			okm := false
			for _, m := range vc.ct.Modifies {
				if strings.Contains(m.Src, "maps") && !strings.HasPrefix(k, "G_") {
					okm = true
				}
				if strings.HasPrefix(k, "G_") && strings.TrimSpace(m.Src) == strings.TrimPrefix(k, "G_") {
					okm = true
				}
				if _, isIx := m.E.(*EIndex); isIx && !strings.HasPrefix(k, "G_") {
					okm = true // x.m[*]: contents of a map (coarse: any map heap)
				}
			}
			if !okm {
				if strings.HasPrefix(k, "G_") {
					vc.addObl(&Obligation{Name: fmt.Sprintf("%s/frame[%s]@b%d", vc.key, k, r.blk.Index), Kind: "frame",
						Goal: implies(r.guard, eq(r.heap.M[k], vc.root().heap0M(k))), Pos: pos, Src: "modifies clause (ghost state)"})
				} else {
					// maps that existed on entry are unchanged (maps created by the call are its own)
					fm := vc.fresh("fm")
					vc.addObl(&Obligation{Name: fmt.Sprintf("%s/frame[%s]@b%d", vc.key, k, r.blk.Index), Kind: "frame",
						Decls: []string{"(declare-const " + fm + " Int)"},
						Goal:  implies(and(r.guard, "(<= "+fm+" "+vc.heap0.Alloc+")"), eq(sel(r.heap.M[k], fm), sel(vc.root().heap0M(k), fm))), Pos: pos, Src: "modifies clause (maps)"})
				}
			}
		}
	}
	return nil
}

func (vc *VC) heap0M(k string) string {
	if n, ok := vc.heap0.M[k]; ok {
		return n
	}
	return k + "_0"
}

// flushSkolems declares the skolem constants an assumed formula introduced (existentials in
// assumption position) and assumes the well-typedness facts recorded for terms over them.
func (vc *VC) flushSkolems(ev *Eval, guard string) {
	for _, d := range ev.skolems {
		vc.root().decls = append(vc.root().decls, d)
	}
	ev.skolems = nil
	for _, hy := range ev.hyps {
		vc.assume(implies(guard, hy))
	}
	ev.hyps = nil
}
